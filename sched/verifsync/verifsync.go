// Package verifsync is the controlled scheduler behind the C11 check. It is compiled into the
// minidyn module through `go build -overlay` (import path
// github.com/truora/minidyn/zzverif/verifsync) and replaces package sync in the instrumented
// client packages: Mutex.Lock/Unlock and the inserted Access/Point calls are scheduling points
// at which the explorer decides which harness thread runs next. Outside an exploration every
// call passes straight through to the real primitives.
package verifsync

import (
	"fmt"
	"reflect"
	"runtime"
	realsync "sync"
)

// Mutex replaces sync.Mutex in instrumented code.
type Mutex struct {
	real  realsync.Mutex
	owner int // thread id + 1 while held under the scheduler; 0 = free
}

// RWMutex replaces sync.RWMutex (modelled as an exclusive lock for writers and a counter for
// readers).
type RWMutex struct {
	real    realsync.RWMutex
	writer  int
	readers map[int]int
}

// WaitGroup, Once and Map are re-exported unchanged so that instrumented code compiles if it
// uses them; they are not scheduling points.
type (
	WaitGroup = realsync.WaitGroup
	Once      = realsync.Once
	Map       = realsync.Map
	Pool      = realsync.Pool
)

// Event is one recorded step of an execution.
type Event struct {
	Thread int
	Kind   string      // lock acquire unlock rlock racquire runlock access touch begin end
	Ptr    interface{} // object identity (a pointer)
	Field  string
	Write  bool
	Locks  []interface{} // mutexes held by the thread at that moment
	Excl   []interface{} // the subset of Locks held exclusively (Lock, not RLock)
	Where  string
}

// Key identifies the memory an access event touches.
func (e Event) Key() string { return fmt.Sprintf("%p.%s", e.Ptr, e.Field) }

// Choice is one scheduling decision with more than one enabled thread.
type Choice struct {
	Enabled []int // canonical order: the running thread first if still enabled, then ascending
	Taken   int   // index into Enabled
	Running bool  // the previously running thread is still enabled (taking another is a preemption)
}

type thread struct {
	id       int
	wake     chan struct{}
	done     bool
	blocked  interface{} // the mutex it waits for
	body     func()
	held     map[interface{}]bool
	finished chan struct{}
}

// Sched controls one execution.
type Sched struct {
	threads  []*thread
	current  int
	yield    chan int // a thread reports: 0 = at a point, 1 = finished
	aborting bool

	prefix  []int
	Choices []Choice
	Events  []Event
	// Deadlock is set when no thread is enabled and not all are finished.
	Deadlock bool
	Diverged string
	// MaxSteps guards against livelock inside one execution.
	MaxSteps int
	steps    int
	Livelock bool
}

var active *Sched

// Active reports whether an exploration is running (used by the harness only).
func Active() bool { return active != nil }

func (s *Sched) cur() *thread { return s.threads[s.current] }

func (s *Sched) locksOf(t *thread) (all, excl []interface{}) {
	if len(t.held) == 0 {
		return nil, nil
	}
	all = make([]interface{}, 0, len(t.held))
	for m, x := range t.held {
		all = append(all, m)
		if x {
			excl = append(excl, m)
		}
	}
	return all, excl
}

func (s *Sched) record(kind string, ptr interface{}, field string, write bool, where string) {
	t := s.cur()
	all, excl := s.locksOf(t)
	s.Events = append(s.Events, Event{Thread: t.id, Kind: kind, Ptr: ptr, Field: field, Write: write, Locks: all, Excl: excl, Where: where})
}

// pause hands control back to the scheduler and waits to be resumed.
func (s *Sched) pause() {
	t := s.cur()
	s.yield <- 0
	<-t.wake
	if s.aborting {
		runtime.Goexit()
	}
}

// Run executes the thread bodies under the given choice prefix; later choices take index 0.
// It returns when every thread has finished, on deadlock, or on divergence.
func Run(bodies []func(), prefix []int) *Sched {
	s := &Sched{yield: make(chan int), prefix: prefix, MaxSteps: 20000}
	for i, b := range bodies {
		s.threads = append(s.threads, &thread{id: i, wake: make(chan struct{}), body: b, held: map[interface{}]bool{}, finished: make(chan struct{})})
	}
	active = s
	defer func() { active = nil }()
	for _, t := range s.threads {
		t := t
		go func() {
			defer close(t.finished)
			defer func() {
				t.done = true
				if !s.aborting {
					s.yield <- 1
				}
			}()
			<-t.wake
			if s.aborting {
				return
			}
			t.body()
		}()
	}
	s.current = -1
	for {
		// enabled threads
		var enabled []int
		running := false
		if s.current >= 0 && !s.cur().done && (s.cur().blocked == nil || s.free(s.cur().blocked, s.cur())) {
			enabled = append(enabled, s.current)
			running = true
		}
		for _, t := range s.threads {
			if t.id == s.current || t.done {
				continue
			}
			if t.blocked != nil && !s.free(t.blocked, t) {
				continue
			}
			enabled = append(enabled, t.id)
		}
		if len(enabled) == 0 {
			all := true
			for _, t := range s.threads {
				if !t.done {
					all = false
				}
			}
			if !all {
				s.Deadlock = true
			}
			break
		}
		pick := 0
		if len(enabled) > 1 {
			n := len(s.Choices)
			if n < len(s.prefix) {
				pick = s.prefix[n]
				if pick >= len(enabled) {
					s.Diverged = fmt.Sprintf("choice %d: prefix wants %d of %d enabled", n, pick, len(enabled))
					break
				}
			}
			s.Choices = append(s.Choices, Choice{Enabled: enabled, Taken: pick, Running: running})
		}
		s.current = enabled[pick]
		t := s.cur()
		if t.blocked != nil {
			s.acquire(t.blocked, t)
			t.blocked = nil
		}
		s.steps++
		if s.steps > s.MaxSteps {
			s.Livelock = true
			break
		}
		t.wake <- struct{}{}
		<-s.yield
	}
	// unwind whatever is still parked
	s.aborting = true
	for _, t := range s.threads {
		if !t.done {
			// every unfinished thread is parked (or about to park) on its wake channel: a blocking
			// send cannot be lost, unlike a non-blocking one that may arrive before the receive
			t.wake <- struct{}{}
		}
	}
	for _, t := range s.threads {
		<-t.finished
	}
	return s
}

func (s *Sched) free(m interface{}, t *thread) bool {
	switch x := m.(type) {
	case *Mutex:
		return x.owner == 0
	case *RWMutex:
		return x.writer == 0 && len(x.readers) == 0
	case rlockReq:
		return x.m.writer == 0
	}
	return true
}

func (s *Sched) acquire(m interface{}, t *thread) {
	switch x := m.(type) {
	case *Mutex:
		x.owner = t.id + 1
		t.held[x] = true
		s.Events = append(s.Events, Event{Thread: t.id, Kind: "acquire", Ptr: x})
	case *RWMutex:
		x.writer = t.id + 1
		t.held[x] = true
		s.Events = append(s.Events, Event{Thread: t.id, Kind: "acquire", Ptr: x})
	case rlockReq:
		if x.m.readers == nil {
			x.m.readers = map[int]int{}
		}
		x.m.readers[t.id]++
		t.held[x.m] = false // held in shared mode: excludes writers only
		s.Events = append(s.Events, Event{Thread: t.id, Kind: "racquire", Ptr: x.m})
	}
}

type rlockReq struct{ m *RWMutex }

// Lock is a scheduling point; a held mutex blocks the thread.
func (m *Mutex) Lock() {
	s := active
	if s == nil || s.aborting {
		if s == nil {
			m.real.Lock()
		}
		return
	}
	t := s.cur()
	s.record("lock", m, "", true, "")
	t.blocked = m // the scheduler grants the mutex when it resumes this thread
	s.pause()
}

// Unlock releases the mutex and is a scheduling point.
func (m *Mutex) Unlock() {
	s := active
	if s == nil {
		m.real.Unlock()
		return
	}
	if s.aborting {
		return
	}
	t := s.cur()
	if m.owner != t.id+1 {
		panic("verifsync: unlock of a mutex not held by this thread")
	}
	m.owner = 0
	delete(t.held, m)
	s.record("unlock", m, "", true, "")
	s.pause()
}

// Lock (writer).
func (m *RWMutex) Lock() {
	s := active
	if s == nil || s.aborting {
		if s == nil {
			m.real.Lock()
		}
		return
	}
	t := s.cur()
	s.record("lock", m, "", true, "")
	t.blocked = m
	s.pause()
}

// Unlock (writer).
func (m *RWMutex) Unlock() {
	s := active
	if s == nil {
		m.real.Unlock()
		return
	}
	if s.aborting {
		return
	}
	t := s.cur()
	m.writer = 0
	delete(t.held, m)
	s.record("unlock", m, "", true, "")
	s.pause()
}

// RLock (reader).
func (m *RWMutex) RLock() {
	s := active
	if s == nil || s.aborting {
		if s == nil {
			m.real.RLock()
		}
		return
	}
	t := s.cur()
	s.record("rlock", m, "", false, "")
	t.blocked = rlockReq{m}
	s.pause()
}

// RUnlock (reader).
func (m *RWMutex) RUnlock() {
	s := active
	if s == nil {
		m.real.RUnlock()
		return
	}
	if s.aborting {
		return
	}
	t := s.cur()
	m.readers[t.id]--
	if m.readers[t.id] <= 0 {
		delete(m.readers, t.id)
		delete(t.held, m)
	}
	s.record("runlock", m, "", false, "")
	s.pause()
}

// Access records a read or write of shared state (inserted by the instrumenter) and is a
// scheduling point.
func Access(obj interface{}, field string, write bool, where string) {
	s := active
	if s == nil || s.aborting {
		return
	}
	s.record("access", obj, field, write, where)
	s.pause()
}

// Touch records a read or write of a map or slice (inserted by the instrumenter before index
// assignments, delete calls, index reads and range loops in every minidyn package). It is NOT a
// scheduling point: the events only feed the happens-before race check, which needs no particular
// interleaving to see that two accesses are unordered. Values that are not maps or slices, and
// nil ones, are ignored. The event keeps the value alive, so an address is never reused within
// one execution.
func Touch(obj interface{}, write bool, where string) {
	s := active
	if s == nil || s.aborting || obj == nil {
		return
	}
	v := reflect.ValueOf(obj)
	switch v.Kind() {
	case reflect.Map:
		if v.IsNil() {
			return
		}
	case reflect.Slice:
		if v.IsNil() || v.Cap() == 0 {
			return
		}
	default:
		return
	}
	s.record("touch", obj, "", write, where)
}

// Point is a plain scheduling point (inserted between statements of package core).
func Point(where string) {
	s := active
	if s == nil || s.aborting {
		return
	}
	s.pause()
}

// Note records a harness event (call begin/end) without yielding.
func Note(kind, what string) {
	s := active
	if s == nil || s.aborting {
		return
	}
	s.record(kind, nil, what, false, "")
}
