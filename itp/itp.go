// Package itp drives minidyn's expression interpreter directly (interpreter.Language), below the
// client API.
package itp

import (
	"errors"
	"fmt"
	"sync/atomic"

	"github.com/truora/minidyn/interpreter"
	"github.com/truora/minidyn/types"

	"verif/val"
)

// ToTypes converts a value into the library's internal attribute representation (fresh memory).
func ToTypes(v val.V) *types.Item {
	switch v.T {
	case "S":
		s := v.S
		return &types.Item{S: &s}
	case "N":
		s := v.S
		return &types.Item{N: &s}
	case "B":
		return &types.Item{B: append([]byte{}, v.B...)}
	case "BOOL":
		b := v.Bo
		return &types.Item{BOOL: &b}
	case "NULL":
		t := true
		return &types.Item{NULL: &t}
	case "L":
		l := make([]*types.Item, len(v.L))
		for i, x := range v.L {
			l[i] = ToTypes(x)
		}
		return &types.Item{L: l}
	case "M":
		m := ItemToTypes(v.M)
		if m == nil {
			m = map[string]*types.Item{}
		}
		return &types.Item{M: m}
	case "SS", "NS":
		ss := make([]*string, len(v.SS))
		for i := range v.SS {
			s := v.SS[i]
			ss[i] = &s
		}
		if v.T == "SS" {
			return &types.Item{SS: ss}
		}
		return &types.Item{NS: ss}
	case "BS":
		bs := make([][]byte, len(v.BS))
		for i, b := range v.BS {
			bs[i] = append([]byte{}, b...)
		}
		return &types.Item{BS: bs}
	}
	panic("bad type " + v.T)
}

// ItemToTypes converts an item (nil stays nil).
func ItemToTypes(it map[string]val.V) map[string]*types.Item {
	if it == nil {
		return nil
	}
	o := make(map[string]*types.Item, len(it))
	for k, v := range it {
		o[k] = ToTypes(v)
	}
	return o
}

// FromTypes converts back.
func FromTypes(a *types.Item) val.V {
	switch {
	case a == nil:
		return val.V{T: "?nil"}
	case a.S != nil:
		return val.S(*a.S)
	case a.N != nil:
		return val.N(*a.N)
	case a.BOOL != nil:
		return val.Bool(*a.BOOL)
	case a.NULL != nil:
		return val.Null()
	case a.B != nil:
		return val.V{T: "B", B: append([]byte{}, a.B...)}
	case a.L != nil:
		l := make([]val.V, len(a.L))
		for i, e := range a.L {
			l[i] = FromTypes(e)
		}
		return val.V{T: "L", L: l}
	case a.M != nil:
		return val.V{T: "M", M: ItemFromTypes(a.M)}
	case a.SS != nil:
		return val.V{T: "SS", SS: strs(a.SS)}
	case a.NS != nil:
		return val.V{T: "NS", SS: strs(a.NS)}
	case a.BS != nil:
		bs := make([][]byte, len(a.BS))
		for i, b := range a.BS {
			bs[i] = append([]byte{}, b...)
		}
		return val.V{T: "BS", BS: bs}
	}
	return val.V{T: "?empty"}
}

func strs(p []*string) []string {
	o := make([]string, len(p))
	for i, s := range p {
		if s != nil {
			o[i] = *s
		}
	}
	return o
}

// ItemFromTypes converts an internal item.
func ItemFromTypes(m map[string]*types.Item) val.Item {
	if m == nil {
		return nil
	}
	o := make(val.Item, len(m))
	for k, v := range m {
		o[k] = FromTypes(v)
	}
	return o
}

// Outcome of a Match: "T", "F", "E" (error returned) or "P" (runtime panic).
type Outcome struct {
	O   string
	Msg string
	// Class of an error: "syntax", "unsupported" or "other".
	Class string
}

func errClass(err error) string {
	switch {
	case errors.Is(err, interpreter.ErrSyntaxError):
		return "syntax"
	case errors.Is(err, interpreter.ErrUnsupportedFeature):
		return "unsupported"
	}
	return "other"
}

// warm is a pool of long-lived Language values: every evaluation runs once on a fresh Language
// and once more on one that has served every earlier evaluation of its worker (and, with the
// process, every package-level cache has). The two must agree - an interpreter that remembers
// anything between calls (a parse cache keyed by the expression text, a memoised path) answers
// the SAME text under OTHER bindings from memory. A disagreement is outcome "D", which no
// acceptance set contains.
var warm = make(chan *interpreter.Language, 64)

func getWarm() *interpreter.Language {
	select {
	case l := <-warm:
		return l
	default:
		return &interpreter.Language{}
	}
}

func putWarm(l *interpreter.Language) {
	select {
	case warm <- l:
	default:
	}
}

// WarmFilter, when set, limits the second evaluation to the expressions it accepts (a check
// with tens of millions of strings repeats the short ones only).
var WarmFilter func(expr string) bool

// WarmEvaluations counts the second evaluations.
var WarmEvaluations int64

// OnDiverge, when set, is told about every disagreement (kind is "Match" or "Update").
var OnDiverge func(kind, expr, msg string, rep map[string]interface{})

func diverged(kind, expr, msg string, item val.Item, names map[string]string, values map[string]val.V) {
	if OnDiverge != nil {
		OnDiverge(kind, expr, msg, map[string]interface{}{"expression": expr, "item": item, "names": names, "values": values})
	}
}

// Match evaluates a condition through interpreter.Language.Match on a fresh Language and once more
// on a long-lived one (outcome "D" if the two disagree). The item actually passed is returned so
// that the caller can check it was not modified.
func Match(expr string, item val.Item, names map[string]string, values map[string]val.V) (out Outcome, passed map[string]*types.Item) {
	out, passed = matchOn(&interpreter.Language{}, expr, item, names, values)
	if WarmFilter != nil && !WarmFilter(expr) {
		return out, passed
	}
	l := getWarm()
	out2, passed2 := matchOn(l, expr, item, names, values)
	atomic.AddInt64(&WarmEvaluations, 1)
	if out2.O != "P" {
		putWarm(l) // a Language that panicked half-way is not reused
	}
	if out2.O != out.O || !val.ItemEqual(ItemFromTypes(passed), ItemFromTypes(passed2)) {
		o := Outcome{O: "D", Msg: fmt.Sprintf("history-dependent: a fresh Language answers %s %s, a Language that evaluated other expressions before answers %s %s", out.O, out.Msg, out2.O, out2.Msg)}
		diverged("Match", expr, o.Msg, item, names, values)
		return o, passed
	}
	return out, passed
}

func matchOn(li *interpreter.Language, expr string, item val.Item, names map[string]string, values map[string]val.V) (out Outcome, passed map[string]*types.Item) {
	passed = ItemToTypes(item)
	if passed == nil {
		passed = map[string]*types.Item{}
	}
	defer func() {
		if p := recover(); p != nil {
			out = Outcome{O: "P", Msg: fmt.Sprint(p)}
		}
	}()
	al := map[string]string{}
	for k, v := range names {
		al[k] = v
	}
	ok, err := li.Match(interpreter.MatchInput{TableName: "tab", Expression: expr, ExpressionType: interpreter.ExpressionTypeConditional,
		Item: passed, Attributes: ItemToTypes(values), Aliases: al})
	if err != nil {
		return Outcome{O: "E", Msg: err.Error(), Class: errClass(err)}, passed
	}
	if ok {
		return Outcome{O: "T"}, passed
	}
	return Outcome{O: "F"}, passed
}

// Update applies an update expression through interpreter.Language.Update and returns the
// resulting item (the map passed in is updated in place by the library).
func Update(expr string, item val.Item, names map[string]string, values map[string]val.V) (out Outcome, result val.Item) {
	out, result = updateOn(&interpreter.Language{}, expr, item, names, values)
	if WarmFilter != nil && !WarmFilter(expr) {
		return out, result
	}
	l := getWarm()
	out2, result2 := updateOn(l, expr, item, names, values)
	atomic.AddInt64(&WarmEvaluations, 1)
	if out2.O != "P" {
		putWarm(l)
	}
	if out2.O != out.O || !val.ItemEqual(result, result2) {
		o := Outcome{O: "D", Msg: fmt.Sprintf("history-dependent: a fresh Language gives %s %s, a Language that applied other expressions before gives %s %s", out.O, result.CanonText(), out2.O, result2.CanonText())}
		diverged("Update", expr, o.Msg, item, names, values)
		return o, result2
	}
	return out, result
}

func updateOn(li *interpreter.Language, expr string, item val.Item, names map[string]string, values map[string]val.V) (out Outcome, result val.Item) {
	passed := ItemToTypes(item)
	if passed == nil {
		passed = map[string]*types.Item{}
	}
	defer func() {
		if p := recover(); p != nil {
			out = Outcome{O: "P", Msg: fmt.Sprint(p)}
			result = ItemFromTypes(passed)
		}
	}()
	al := map[string]string{}
	for k, v := range names {
		al[k] = v
	}
	err := li.Update(interpreter.UpdateInput{TableName: "tab", Expression: expr, Item: passed, Attributes: ItemToTypes(values), Aliases: al})
	if err != nil {
		return Outcome{O: "E", Msg: err.Error(), Class: errClass(err)}, ItemFromTypes(passed)
	}
	return Outcome{O: "T"}, ItemFromTypes(passed)
}
