// Package itp drives minidyn's expression interpreter directly (interpreter.Language), below the
// client API.
package itp

import (
	"errors"
	"fmt"

	"github.com/truora/minidyn/interpreter"
	"github.com/truora/minidyn/types"

	"verif/val"
)

// ToTypes converts a value into the library's internal attribute representation (fresh memory).
func ToTypes(v val.V) *types.Item {
	switch v.T {
	case "S":
		s := v.S
		return &types.Item{S: &s}
	case "N":
		s := v.S
		return &types.Item{N: &s}
	case "B":
		return &types.Item{B: append([]byte{}, v.B...)}
	case "BOOL":
		b := v.Bo
		return &types.Item{BOOL: &b}
	case "NULL":
		t := true
		return &types.Item{NULL: &t}
	case "L":
		l := make([]*types.Item, len(v.L))
		for i, x := range v.L {
			l[i] = ToTypes(x)
		}
		return &types.Item{L: l}
	case "M":
		m := ItemToTypes(v.M)
		if m == nil {
			m = map[string]*types.Item{}
		}
		return &types.Item{M: m}
	case "SS", "NS":
		ss := make([]*string, len(v.SS))
		for i := range v.SS {
			s := v.SS[i]
			ss[i] = &s
		}
		if v.T == "SS" {
			return &types.Item{SS: ss}
		}
		return &types.Item{NS: ss}
	case "BS":
		bs := make([][]byte, len(v.BS))
		for i, b := range v.BS {
			bs[i] = append([]byte{}, b...)
		}
		return &types.Item{BS: bs}
	}
	panic("bad type " + v.T)
}

// ItemToTypes converts an item (nil stays nil).
func ItemToTypes(it map[string]val.V) map[string]*types.Item {
	if it == nil {
		return nil
	}
	o := make(map[string]*types.Item, len(it))
	for k, v := range it {
		o[k] = ToTypes(v)
	}
	return o
}

// FromTypes converts back.
func FromTypes(a *types.Item) val.V {
	switch {
	case a == nil:
		return val.V{T: "?nil"}
	case a.S != nil:
		return val.S(*a.S)
	case a.N != nil:
		return val.N(*a.N)
	case a.BOOL != nil:
		return val.Bool(*a.BOOL)
	case a.NULL != nil:
		return val.Null()
	case a.B != nil:
		return val.V{T: "B", B: append([]byte{}, a.B...)}
	case a.L != nil:
		l := make([]val.V, len(a.L))
		for i, e := range a.L {
			l[i] = FromTypes(e)
		}
		return val.V{T: "L", L: l}
	case a.M != nil:
		return val.V{T: "M", M: ItemFromTypes(a.M)}
	case a.SS != nil:
		return val.V{T: "SS", SS: strs(a.SS)}
	case a.NS != nil:
		return val.V{T: "NS", SS: strs(a.NS)}
	case a.BS != nil:
		bs := make([][]byte, len(a.BS))
		for i, b := range a.BS {
			bs[i] = append([]byte{}, b...)
		}
		return val.V{T: "BS", BS: bs}
	}
	return val.V{T: "?empty"}
}

func strs(p []*string) []string {
	o := make([]string, len(p))
	for i, s := range p {
		if s != nil {
			o[i] = *s
		}
	}
	return o
}

// ItemFromTypes converts an internal item.
func ItemFromTypes(m map[string]*types.Item) val.Item {
	if m == nil {
		return nil
	}
	o := make(val.Item, len(m))
	for k, v := range m {
		o[k] = FromTypes(v)
	}
	return o
}

// Outcome of a Match: "T", "F", "E" (error returned) or "P" (runtime panic).
type Outcome struct {
	O   string
	Msg string
	// Class of an error: "syntax", "unsupported" or "other".
	Class string
}

func errClass(err error) string {
	switch {
	case errors.Is(err, interpreter.ErrSyntaxError):
		return "syntax"
	case errors.Is(err, interpreter.ErrUnsupportedFeature):
		return "unsupported"
	}
	return "other"
}

// Match evaluates a condition through interpreter.Language.Match. The item actually passed is
// returned so that the caller can check it was not modified.
func Match(expr string, item val.Item, names map[string]string, values map[string]val.V) (out Outcome, passed map[string]*types.Item) {
	passed = ItemToTypes(item)
	if passed == nil {
		passed = map[string]*types.Item{}
	}
	defer func() {
		if p := recover(); p != nil {
			out = Outcome{O: "P", Msg: fmt.Sprint(p)}
		}
	}()
	li := &interpreter.Language{}
	al := map[string]string{}
	for k, v := range names {
		al[k] = v
	}
	ok, err := li.Match(interpreter.MatchInput{TableName: "tab", Expression: expr, ExpressionType: interpreter.ExpressionTypeConditional,
		Item: passed, Attributes: ItemToTypes(values), Aliases: al})
	if err != nil {
		return Outcome{O: "E", Msg: err.Error(), Class: errClass(err)}, passed
	}
	if ok {
		return Outcome{O: "T"}, passed
	}
	return Outcome{O: "F"}, passed
}

// Update applies an update expression through interpreter.Language.Update and returns the
// resulting item (the map passed in is updated in place by the library).
func Update(expr string, item val.Item, names map[string]string, values map[string]val.V) (out Outcome, result val.Item) {
	passed := ItemToTypes(item)
	if passed == nil {
		passed = map[string]*types.Item{}
	}
	defer func() {
		if p := recover(); p != nil {
			out = Outcome{O: "P", Msg: fmt.Sprint(p)}
			result = ItemFromTypes(passed)
		}
	}()
	li := &interpreter.Language{}
	al := map[string]string{}
	for k, v := range names {
		al[k] = v
	}
	err := li.Update(interpreter.UpdateInput{TableName: "tab", Expression: expr, Item: passed, Attributes: ItemToTypes(values), Aliases: al})
	if err != nil {
		return Outcome{O: "E", Msg: err.Error(), Class: errClass(err)}, ItemFromTypes(passed)
	}
	return Outcome{O: "T"}, ItemFromTypes(passed)
}
