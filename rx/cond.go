// Package rx is the reference semantics for DynamoDB condition and update expressions, written
// over ASTs (never by parsing the string that is sent to the implementation). Condition
// evaluation returns an acceptance set (a mask of T, F, E) so that the oracle never demands more
// than the property states (see DESIGN.md 1.5 and Appendix A).
package rx

import (
	"bytes"
	"fmt"
	"strings"

	"verif/val"
)

// Outcome bits.
const (
	T = 1 // condition true
	F = 2 // condition false
	E = 4 // request rejected (validation error)
)

// MaskString renders an acceptance mask.
func MaskString(m int) string {
	var p []string
	if m&T != 0 {
		p = append(p, "T")
	}
	if m&F != 0 {
		p = append(p, "F")
	}
	if m&E != 0 {
		p = append(p, "E")
	}
	return "{" + strings.Join(p, ",") + "}"
}

// PElem is one element of a document path.
type PElem struct {
	Name  string `json:"n,omitempty"` // attribute or member name; "#x" is an alias
	Idx   int    `json:"i,omitempty"`
	IsIdx bool   `json:"x,omitempty"`
}

// Path is a document path; the first element is always a name.
type Path []PElem

// P builds a path from "a", "m.x", "l[0]", "#a.#b[2]".
func P(s string) Path {
	var p Path
	for _, part := range strings.Split(s, ".") {
		name := part
		var idxs []int
		for strings.HasSuffix(name, "]") {
			i := strings.LastIndexByte(name, '[')
			var n int
			fmt.Sscanf(name[i+1:len(name)-1], "%d", &n)
			idxs = append([]int{n}, idxs...)
			name = name[:i]
		}
		p = append(p, PElem{Name: name})
		for _, n := range idxs {
			p = append(p, PElem{Idx: n, IsIdx: true})
		}
	}
	return p
}

func (p Path) String() string {
	var sb strings.Builder
	for i, e := range p {
		if e.IsIdx {
			fmt.Fprintf(&sb, "[%d]", e.Idx)
			continue
		}
		if i > 0 {
			sb.WriteByte('.')
		}
		sb.WriteString(e.Name)
	}
	return sb.String()
}

// Operand is a path, a value placeholder, or size(path).
type Operand struct {
	K    string `json:"k"` // "path" | "val" | "size"
	Path Path   `json:"p,omitempty"`
	Ph   string `json:"v,omitempty"`
}

func OpP(path string) Operand { return Operand{K: "path", Path: P(path)} }
func OpV(ph string) Operand   { return Operand{K: "val", Ph: ph} }
func OpSize(path string) Operand {
	return Operand{K: "size", Path: P(path)}
}

func (o Operand) String() string {
	switch o.K {
	case "path":
		return o.Path.String()
	case "val":
		return o.Ph
	case "size":
		return "size(" + o.Path.String() + ")"
	}
	return "?"
}

// Cond is a condition AST node.
type Cond struct {
	K   string    `json:"k"` // cmp between in fn not and or paren
	Op  string    `json:"op,omitempty"`
	A   []Operand `json:"a,omitempty"`
	Sub []*Cond   `json:"s,omitempty"`
}

func Cmp(op string, l, r Operand) *Cond  { return &Cond{K: "cmp", Op: op, A: []Operand{l, r}} }
func Between(x, lo, hi Operand) *Cond    { return &Cond{K: "between", A: []Operand{x, lo, hi}} }
func In(x Operand, ms ...Operand) *Cond  { return &Cond{K: "in", A: append([]Operand{x}, ms...)} }
func Fn(name string, a ...Operand) *Cond { return &Cond{K: "fn", Op: name, A: a} }
func Not(c *Cond) *Cond                  { return &Cond{K: "not", Sub: []*Cond{c}} }
func And(l, r *Cond) *Cond               { return &Cond{K: "and", Sub: []*Cond{l, r}} }
func Or(l, r *Cond) *Cond                { return &Cond{K: "or", Sub: []*Cond{l, r}} }
func Paren(c *Cond) *Cond                { return &Cond{K: "paren", Sub: []*Cond{c}} }
func Exists(path string) *Cond           { return Fn("attribute_exists", OpP(path)) }
func NotExists(path string) *Cond        { return Fn("attribute_not_exists", OpP(path)) }
func Eq(path, ph string) *Cond           { return Cmp("=", OpP(path), OpV(ph)) }
func BeginsWith(path, ph string) *Cond   { return Fn("begins_with", OpP(path), OpV(ph)) }

func prec(c *Cond) int {
	switch c.K {
	case "or":
		return 1
	case "and":
		return 2
	case "not":
		return 3
	}
	return 4
}

// String prints the condition with the minimal parentheses that preserve the tree's value.
func (c *Cond) String() string {
	if c == nil {
		return ""
	}
	sub := func(s *Cond, min int) string {
		if prec(s) < min {
			return "(" + s.String() + ")"
		}
		return s.String()
	}
	switch c.K {
	case "cmp":
		return c.A[0].String() + " " + c.Op + " " + c.A[1].String()
	case "between":
		return c.A[0].String() + " BETWEEN " + c.A[1].String() + " AND " + c.A[2].String()
	case "in":
		ms := make([]string, len(c.A)-1)
		for i, m := range c.A[1:] {
			ms[i] = m.String()
		}
		return c.A[0].String() + " IN (" + strings.Join(ms, ", ") + ")"
	case "fn":
		as := make([]string, len(c.A))
		for i, a := range c.A {
			as[i] = a.String()
		}
		return c.Op + "(" + strings.Join(as, ", ") + ")"
	case "not":
		return "NOT " + sub(c.Sub[0], 3)
	case "and":
		return sub(c.Sub[0], 2) + " AND " + sub(c.Sub[1], 2)
	case "or":
		return sub(c.Sub[0], 1) + " OR " + sub(c.Sub[1], 1)
	case "paren":
		return "(" + c.Sub[0].String() + ")"
	}
	return "?"
}

// Env carries the bindings of one evaluation.
type Env struct {
	Item   val.Item
	Names  map[string]string
	Values map[string]val.V
	// MissingAsNull is a defect model, never the reference: a path that does not resolve on the
	// right-hand side of SET evaluates to NULL instead of invalidating the update.
	MissingAsNull bool
	// LenientAdd is a defect model, never the reference: ADD stores any operand under a missing
	// attribute and adds a scalar of the element type to a set.
	LenientAdd bool
	// AliasAsPath is a defect model, never the reference: a name placeholder whose name contains
	// dots and names no attribute of the item is read as a document path (d.e = member e of d).
	AliasAsPath bool
}

// resolution status
const (
	rFound = iota
	rMissing
	rMissingOrE // parent exists but has another type: missing, or a validation error
	rInvalid    // undefined placeholder: the request must be rejected
)

// Resolve walks a path. st is rFound, rMissing, rMissingOrE or rInvalid.
func (e Env) Resolve(p Path) (val.V, int) {
	if len(p) == 0 {
		return val.V{}, rInvalid
	}
	name, ok := e.name(p[0].Name)
	if !ok {
		return val.V{}, rInvalid
	}
	cur, ok := e.Item[name]
	if !ok && e.AliasAsPath && strings.HasPrefix(p[0].Name, "#") && strings.Contains(name, ".") {
		var q Path
		for _, seg := range strings.Split(name, ".") {
			q = append(q, PElem{Name: seg})
		}
		e2 := e
		e2.AliasAsPath = false
		return e2.Resolve(append(q, p[1:]...))
	}
	if !ok {
		// still validate remaining aliases
		for _, el := range p[1:] {
			if !el.IsIdx {
				if _, ok := e.name(el.Name); !ok {
					return val.V{}, rInvalid
				}
			}
		}
		return val.V{}, rMissing
	}
	st := rFound
	for _, el := range p[1:] {
		if el.IsIdx {
			if st != rFound {
				continue
			}
			if cur.T != "L" {
				st = rMissingOrE
				continue
			}
			if el.Idx >= len(cur.L) {
				st = rMissing
				continue
			}
			cur = cur.L[el.Idx]
			continue
		}
		n, ok := e.name(el.Name)
		if !ok {
			return val.V{}, rInvalid
		}
		if st != rFound {
			continue
		}
		if cur.T != "M" {
			st = rMissingOrE
			continue
		}
		nx, ok := cur.M[n]
		if !ok {
			st = rMissing
			continue
		}
		cur = nx
	}
	if st != rFound {
		return val.V{}, st
	}
	return cur, rFound
}

func (e Env) name(n string) (string, bool) {
	if strings.HasPrefix(n, "#") {
		r, ok := e.Names[n]
		return r, ok
	}
	return n, true
}

// operand evaluates an operand: value, status (rFound/rMissing/rMissingOrE/rInvalid).
func (e Env) operand(o Operand) (val.V, int) {
	switch o.K {
	case "path":
		return e.Resolve(o.Path)
	case "val":
		v, ok := e.Values[o.Ph]
		if !ok {
			return val.V{}, rInvalid
		}
		return v, rFound
	case "size":
		v, st := e.Resolve(o.Path)
		if st == rInvalid {
			return v, st
		}
		if st != rFound {
			return val.V{}, rMissingOrE
		}
		n, ok := Size(v)
		if !ok {
			return val.V{}, rMissingOrE
		}
		return val.N(fmt.Sprint(n)), rFound
	}
	return val.V{}, rInvalid
}

// Size is DynamoDB's size(): length of S (bytes) and B, element count of L, M and sets.
func Size(v val.V) (int, bool) {
	switch v.T {
	case "S":
		return len(v.S), true
	case "B":
		return len(v.B), true
	case "L":
		return len(v.L), true
	case "M":
		return len(v.M), true
	case "SS", "NS":
		return len(v.SS), true
	case "BS":
		return len(v.BS), true
	}
	return 0, false
}

func orderable(t string) bool { return t == "S" || t == "N" || t == "B" }

func b2m(b bool) int {
	if b {
		return T
	}
	return F
}

func cmpMask(op string, a val.V, sa int, b val.V, sb int) int {
	if sa == rInvalid || sb == rInvalid {
		return E
	}
	extra := 0
	if sa == rMissingOrE || sb == rMissingOrE {
		extra = E
	}
	missing := sa != rFound || sb != rFound
	switch op {
	case "=":
		if missing {
			return F | extra
		}
		return b2m(val.Equal(a, b))
	case "<>":
		if missing {
			return T | extra
		}
		return b2m(!val.Equal(a, b))
	}
	// ordering operators
	if missing {
		// a missing attribute makes the comparison false; a non-orderable partner may also be
		// rejected outright
		if (sa == rFound && !orderable(a.T)) || (sb == rFound && !orderable(b.T)) {
			extra = E
		}
		return F | extra
	}
	if a.T != b.T || !orderable(a.T) {
		return F | E
	}
	c, ok := val.Compare(a, b)
	if !ok {
		return F | E
	}
	switch op {
	case "<":
		return b2m(c < 0)
	case "<=":
		return b2m(c <= 0)
	case ">":
		return b2m(c > 0)
	case ">=":
		return b2m(c >= 0)
	}
	return E
}

// Eval returns the acceptance mask of the condition on the environment.
func (c *Cond) Eval(e Env) int {
	switch c.K {
	case "cmp":
		a, sa := e.operand(c.A[0])
		b, sb := e.operand(c.A[1])
		return cmpMask(c.Op, a, sa, b, sb)
	case "between":
		x, sx := e.operand(c.A[0])
		lo, sl := e.operand(c.A[1])
		hi, sh := e.operand(c.A[2])
		if sx == rInvalid || sl == rInvalid || sh == rInvalid {
			return E
		}
		if sx != rFound || sl != rFound || sh != rFound {
			m := F
			if sx == rMissingOrE || sl == rMissingOrE || sh == rMissingOrE {
				m |= E
			}
			for _, p := range []struct {
				v  val.V
				st int
			}{{x, sx}, {lo, sl}, {hi, sh}} {
				if p.st == rFound && !orderable(p.v.T) {
					m |= E
				}
			}
			return m
		}
		if x.T != lo.T || x.T != hi.T || !orderable(x.T) {
			return F | E
		}
		c1, _ := val.Compare(lo, x)
		c2, _ := val.Compare(x, hi)
		return b2m(c1 <= 0 && c2 <= 0)
	case "in":
		x, sx := e.operand(c.A[0])
		if sx == rInvalid {
			return E
		}
		found := false
		extra := 0
		if sx == rMissingOrE {
			extra = E
		}
		for _, m := range c.A[1:] {
			v, st := e.operand(m)
			if st == rInvalid {
				return E
			}
			if st == rMissingOrE {
				extra = E
			}
			if st == rFound && sx == rFound && val.Equal(x, v) {
				found = true
			}
		}
		if sx != rFound {
			return F | extra
		}
		return b2m(found) | extra
	case "fn":
		return evalFn(c, e)
	case "paren":
		return c.Sub[0].Eval(e)
	case "not":
		m := c.Sub[0].Eval(e)
		o := 0
		if m&T != 0 {
			o |= F
		}
		if m&F != 0 {
			o |= T
		}
		if m&E != 0 {
			o |= E
		}
		return o
	case "and", "or":
		l := c.Sub[0].Eval(e)
		r := c.Sub[1].Eval(e)
		o := 0
		for _, a := range []int{T, F, E} {
			if l&a == 0 {
				continue
			}
			for _, b := range []int{T, F, E} {
				if r&b == 0 {
					continue
				}
				o |= combine(c.K, a, b)
			}
		}
		return o
	}
	return E
}

// combine gives the accepted results of a binary connective for definite operand outcomes: an E
// operand makes the whole E, or — if the other operand alone decides the result — that result.
func combine(k string, a, b int) int {
	decide := F // the value that decides AND
	other := T
	if k == "or" {
		decide, other = T, F
	}
	if a == E || b == E {
		o := E
		if a == decide || b == decide {
			o |= decide
		}
		return o
	}
	if a == decide || b == decide {
		return decide
	}
	return other
}

var typeNames = map[string]bool{"S": true, "N": true, "B": true, "BOOL": true, "NULL": true, "L": true, "M": true, "SS": true, "NS": true, "BS": true}

func evalFn(c *Cond, e Env) int {
	switch c.Op {
	case "attribute_exists", "attribute_not_exists":
		if len(c.A) != 1 || c.A[0].K != "path" {
			return E
		}
		_, st := e.Resolve(c.A[0].Path)
		var m int
		switch st {
		case rInvalid:
			return E
		case rFound:
			m = T
		case rMissing:
			m = F
		case rMissingOrE:
			m = F | E
		}
		if c.Op == "attribute_not_exists" {
			o := m & E
			if m&T != 0 {
				o |= F
			}
			if m&F != 0 {
				o |= T
			}
			return o
		}
		return m
	case "attribute_type":
		if len(c.A) != 2 || c.A[0].K != "path" {
			return E
		}
		v, st := e.Resolve(c.A[0].Path)
		t, stt := e.operand(c.A[1])
		if st == rInvalid || stt == rInvalid {
			return E
		}
		if stt != rFound || t.T != "S" || !typeNames[t.S] {
			return E
		}
		switch st {
		case rMissing:
			return F
		case rMissingOrE:
			return F | E
		}
		return b2m(v.T == t.S)
	case "begins_with":
		if len(c.A) != 2 {
			return E
		}
		p, sp := e.operand(c.A[0])
		v, sv := e.operand(c.A[1])
		if sp == rInvalid || sv == rInvalid {
			return E
		}
		if sv != rFound {
			return F | E
		}
		if v.T != "S" && v.T != "B" {
			return E | F
		}
		switch sp {
		case rMissing:
			return F
		case rMissingOrE:
			return F | E
		}
		if p.T != v.T {
			return F | E
		}
		if p.T == "S" {
			return b2m(strings.HasPrefix(p.S, v.S))
		}
		return b2m(bytes.HasPrefix(p.B, v.B))
	case "contains":
		if len(c.A) != 2 {
			return E
		}
		p, sp := e.operand(c.A[0])
		v, sv := e.operand(c.A[1])
		if sp == rInvalid || sv == rInvalid {
			return E
		}
		if sv != rFound {
			return F | E
		}
		switch sp {
		case rMissing:
			return F
		case rMissingOrE:
			return F | E
		}
		switch p.T {
		case "S":
			if v.T != "S" {
				return F | E
			}
			return b2m(strings.Contains(p.S, v.S))
		case "B":
			if v.T != "B" {
				return F | E
			}
			return b2m(bytes.Contains(p.B, v.B))
		case "SS":
			if v.T != "S" {
				return F | E
			}
			for _, m := range p.SS {
				if m == v.S {
					return T
				}
			}
			return F
		case "NS":
			if v.T != "N" {
				return F | E
			}
			for _, m := range p.SS {
				if val.NumEqual(m, v.S) {
					return T
				}
			}
			return F
		case "BS":
			if v.T != "B" {
				return F | E
			}
			for _, m := range p.BS {
				if bytes.Equal(m, v.B) {
					return T
				}
			}
			return F
		case "L":
			for _, m := range p.L {
				if val.Equal(m, v) {
					return T
				}
			}
			return F
		}
		return F | E
	}
	return E
}

// Placeholders returns the #names and :values the condition mentions.
func (c *Cond) Placeholders(names, values map[string]bool) {
	if c == nil {
		return
	}
	for _, a := range c.A {
		if a.K == "val" {
			values[a.Ph] = true
		}
		for _, el := range a.Path {
			if strings.HasPrefix(el.Name, "#") {
				names[el.Name] = true
			}
		}
	}
	for _, s := range c.Sub {
		s.Placeholders(names, values)
	}
}
