package rx

import (
	"bytes"
	"sort"
	"strings"

	"verif/val"
)

// Rhs is the right-hand side of a SET action.
type Rhs struct {
	K    string `json:"k"` // val path plus minus ifne lappend
	Ph   string `json:"v,omitempty"`
	Path Path   `json:"p,omitempty"`
	A    []Rhs  `json:"a,omitempty"`
}

func RV(ph string) Rhs             { return Rhs{K: "val", Ph: ph} }
func RP(path string) Rhs           { return Rhs{K: "path", Path: P(path)} }
func RPlus(a, b Rhs) Rhs           { return Rhs{K: "plus", A: []Rhs{a, b}} }
func RMinus(a, b Rhs) Rhs          { return Rhs{K: "minus", A: []Rhs{a, b}} }
func RIfNE(path string, d Rhs) Rhs { return Rhs{K: "ifne", Path: P(path), A: []Rhs{d}} }
func RAppend(a, b Rhs) Rhs         { return Rhs{K: "lappend", A: []Rhs{a, b}} }

func (r Rhs) String() string {
	switch r.K {
	case "val":
		return r.Ph
	case "path":
		return r.Path.String()
	case "plus":
		return r.A[0].String() + " + " + r.A[1].String()
	case "minus":
		return r.A[0].String() + " - " + r.A[1].String()
	case "ifne":
		return "if_not_exists(" + r.Path.String() + ", " + r.A[0].String() + ")"
	case "lappend":
		return "list_append(" + r.A[0].String() + ", " + r.A[1].String() + ")"
	}
	return "?"
}

// Action is one update action.
type Action struct {
	K    string `json:"k"` // SET REMOVE ADD DELETE
	Path Path   `json:"p"`
	Rhs  *Rhs   `json:"r,omitempty"`
	Ph   string `json:"v,omitempty"` // ADD / DELETE operand
}

func Set(path string, r Rhs) Action { return Action{K: "SET", Path: P(path), Rhs: &r} }
func Remove(path string) Action     { return Action{K: "REMOVE", Path: P(path)} }
func Add(path, ph string) Action    { return Action{K: "ADD", Path: P(path), Ph: ph} }
func Delete(path, ph string) Action { return Action{K: "DELETE", Path: P(path), Ph: ph} }

// Update is an update expression: actions are printed grouped into clauses in order of first
// appearance of their keyword.
type Update struct {
	Actions []Action `json:"actions"`
}

func U(as ...Action) *Update { return &Update{Actions: as} }

func (u *Update) String() string {
	if u == nil {
		return ""
	}
	var order []string
	groups := map[string][]string{}
	for _, a := range u.Actions {
		if _, ok := groups[a.K]; !ok {
			order = append(order, a.K)
		}
		var s string
		switch a.K {
		case "SET":
			s = a.Path.String() + " = " + a.Rhs.String()
		case "REMOVE":
			s = a.Path.String()
		default:
			s = a.Path.String() + " " + a.Ph
		}
		groups[a.K] = append(groups[a.K], s)
	}
	var parts []string
	for _, k := range order {
		parts = append(parts, k+" "+strings.Join(groups[k], ", "))
	}
	return strings.Join(parts, " ")
}

// Placeholders collects the placeholders the update mentions.
func (u *Update) Placeholders(names, values map[string]bool) {
	if u == nil {
		return
	}
	pp := func(p Path) {
		for _, el := range p {
			if strings.HasPrefix(el.Name, "#") {
				names[el.Name] = true
			}
		}
	}
	var rr func(r Rhs)
	rr = func(r Rhs) {
		if r.K == "val" {
			values[r.Ph] = true
		}
		pp(r.Path)
		for _, a := range r.A {
			rr(a)
		}
	}
	for _, a := range u.Actions {
		pp(a.Path)
		if a.Rhs != nil {
			rr(*a.Rhs)
		}
		if a.Ph != "" {
			values[a.Ph] = true
		}
	}
}

func (e Env) rhs(r Rhs) (val.V, bool) {
	switch r.K {
	case "val":
		v, ok := e.Values[r.Ph]
		return v, ok
	case "path":
		v, st := e.Resolve(r.Path)
		if st != rFound && st != rInvalid && e.MissingAsNull {
			return val.Null(), true
		}
		return v, st == rFound
	case "plus", "minus":
		a, ok1 := e.rhs(r.A[0])
		b, ok2 := e.rhs(r.A[1])
		if !ok1 || !ok2 || a.T != "N" || b.T != "N" {
			return val.V{}, false
		}
		x, e1 := val.ParseDec(a.S)
		y, e2 := val.ParseDec(b.S)
		if e1 != nil || e2 != nil {
			return val.V{}, false
		}
		if r.K == "plus" {
			return val.N(x.Add(y).Plain()), true
		}
		return val.N(x.Sub(y).Plain()), true
	case "ifne":
		v, st := e.Resolve(r.Path)
		if st == rInvalid {
			return v, false
		}
		if st == rFound {
			return v, true
		}
		return e.rhs(r.A[0])
	case "lappend":
		a, ok1 := e.rhs(r.A[0])
		b, ok2 := e.rhs(r.A[1])
		if !ok1 || !ok2 || a.T != "L" || b.T != "L" {
			return val.V{}, false
		}
		return val.L(append(append([]val.V{}, a.L...), b.L...)...), true
	}
	return val.V{}, false
}

// resolved path: names de-aliased.
func (e Env) dealias(p Path) (Path, bool) {
	o := make(Path, len(p))
	for i, el := range p {
		o[i] = el
		if !el.IsIdx {
			n, ok := e.name(el.Name)
			if !ok {
				return nil, false
			}
			o[i].Name = n
		}
	}
	return o, true
}

// setAt returns a copy of v with the sub-path p (relative to v) set to nv. ok=false ⇒ E.
func setAt(v val.V, p Path, nv val.V) (val.V, bool) {
	if len(p) == 0 {
		return nv, true
	}
	el := p[0]
	if el.IsIdx {
		if v.T != "L" {
			return v, false
		}
		if el.Idx < len(v.L) {
			c, ok := setAt(v.L[el.Idx], p[1:], nv)
			if !ok {
				return v, false
			}
			o := v.Clone()
			o.L[el.Idx] = c
			return o, true
		}
		if len(p) > 1 {
			return v, false
		}
		o := v.Clone()
		o.L = append(o.L, nv)
		return o, true
	}
	if v.T != "M" {
		return v, false
	}
	child, ok := v.M[el.Name]
	if !ok {
		if len(p) > 1 {
			return v, false
		}
		o := v.Clone()
		if o.M == nil {
			o.M = map[string]val.V{}
		}
		o.M[el.Name] = nv
		return o, true
	}
	c, ok := setAt(child, p[1:], nv)
	if !ok {
		return v, false
	}
	o := v.Clone()
	o.M[el.Name] = c
	return o, true
}

// Apply returns the accepted post-update items (usually one; two when DELETE empties a set).
// ok=false means the update must be rejected and the item left unchanged.
func (u *Update) Apply(item val.Item, names map[string]string, values map[string]val.V) ([]val.Item, bool) {
	return u.ApplyEnv(Env{Item: item, Names: names, Values: values})
}

// ApplyEnv is Apply with an explicit environment (used to evaluate defect models).
func (u *Update) ApplyEnv(e Env) ([]val.Item, bool) {
	item, values := e.Item, e.Values
	work := item.Clone()
	if work == nil {
		work = val.Item{}
	}
	root := func() val.V { return val.V{T: "M", M: work} }
	var removes []Path
	var emptied []string // top-level attributes emptied by DELETE
	for _, a := range u.Actions {
		p, ok := e.dealias(a.Path)
		if !ok {
			return nil, false
		}
		switch a.K {
		case "SET":
			v, ok := e.rhs(*a.Rhs)
			if !ok {
				return nil, false
			}
			nr, ok := setAt(root(), p, v.Clone())
			if !ok {
				return nil, false
			}
			work = nr.M
		case "REMOVE":
			removes = append(removes, p)
		case "ADD":
			v, ok := values[a.Ph]
			if !ok {
				return nil, false
			}
			cur, st := e.Resolve(a.Path)
			switch st {
			case rInvalid, rMissingOrE:
				return nil, false
			case rMissing:
				if v.T != "N" && v.T != "SS" && v.T != "NS" && v.T != "BS" && !e.LenientAdd {
					return nil, false
				}
				nr, ok := setAt(root(), p, v.Clone())
				if !ok {
					return nil, false
				}
				work = nr.M
				continue
			}
			var nv val.V
			switch {
			case cur.T == "N" && v.T == "N":
				x, e1 := val.ParseDec(cur.S)
				y, e2 := val.ParseDec(v.S)
				if e1 != nil || e2 != nil {
					return nil, false
				}
				nv = val.N(x.Add(y).Plain())
			case cur.T == v.T && (cur.T == "SS" || cur.T == "NS" || cur.T == "BS"):
				nv = setUnion(cur, v)
			case e.LenientAdd && (cur.T == "SS" && v.T == "S" || cur.T == "NS" && v.T == "N"):
				nv = setUnion(cur, val.V{T: cur.T, SS: []string{v.S}})
			case e.LenientAdd && cur.T == "BS" && v.T == "B":
				nv = setUnion(cur, val.V{T: "BS", BS: [][]byte{v.B}})
			default:
				return nil, false
			}
			nr, ok := setAt(root(), p, nv)
			if !ok {
				return nil, false
			}
			work = nr.M
		case "DELETE":
			v, ok := values[a.Ph]
			if !ok {
				return nil, false
			}
			if v.T != "SS" && v.T != "NS" && v.T != "BS" {
				return nil, false
			}
			cur, st := e.Resolve(a.Path)
			switch st {
			case rInvalid, rMissingOrE:
				return nil, false
			case rMissing:
				continue
			}
			if cur.T != v.T {
				return nil, false
			}
			nv := setMinus(cur, v)
			nr, ok := setAt(root(), p, nv)
			if !ok {
				return nil, false
			}
			work = nr.M
			if n, _ := Size(nv); n == 0 && len(p) == 1 {
				emptied = append(emptied, p[0].Name)
			}
		}
	}
	// REMOVE: indexes refer to the pre-update positions; process deepest/highest index first.
	sort.SliceStable(removes, func(i, j int) bool { return pathKey(removes[i]) > pathKey(removes[j]) })
	for _, p := range removes {
		nr, ok := removeAt(root(), p)
		if !ok {
			return nil, false
		}
		work = nr.M
	}
	outs := []val.Item{work}
	if len(emptied) > 0 {
		alt := work.Clone()
		for _, n := range emptied {
			delete(alt, n)
		}
		outs = append(outs, alt)
	}
	return outs, true
}

func pathKey(p Path) string {
	var sb strings.Builder
	for _, el := range p {
		if el.IsIdx {
			sb.WriteString("[")
			s := "00000000" + itoa(el.Idx)
			sb.WriteString(s[len(s)-8:])
			sb.WriteString("]")
		} else {
			sb.WriteString("." + el.Name)
		}
	}
	return sb.String()
}

func itoa(n int) string {
	if n == 0 {
		return "0"
	}
	s := ""
	for n > 0 {
		s = string(rune('0'+n%10)) + s
		n /= 10
	}
	return s
}

// removeAt removes the element at p (relative to v); a missing target is a no-op.
func removeAt(v val.V, p Path) (val.V, bool) {
	el := p[0]
	if el.IsIdx {
		if v.T != "L" {
			return v, false
		}
		if el.Idx >= len(v.L) {
			return v, true
		}
		o := v.Clone()
		if len(p) == 1 {
			o.L = append(o.L[:el.Idx], o.L[el.Idx+1:]...)
			return o, true
		}
		c, ok := removeAt(o.L[el.Idx], p[1:])
		if !ok {
			return v, false
		}
		o.L[el.Idx] = c
		return o, true
	}
	if v.T != "M" {
		return v, false
	}
	child, ok := v.M[el.Name]
	if !ok {
		return v, true
	}
	o := v.Clone()
	if len(p) == 1 {
		delete(o.M, el.Name)
		return o, true
	}
	c, ok := removeAt(child, p[1:])
	if !ok {
		return v, false
	}
	o.M[el.Name] = c
	return o, true
}

func setUnion(a, b val.V) val.V {
	o := a.Clone()
	switch a.T {
	case "SS":
		for _, m := range b.SS {
			if !containsStr(o.SS, m) {
				o.SS = append(o.SS, m)
			}
		}
	case "NS":
		for _, m := range b.SS {
			f := false
			for _, x := range o.SS {
				if val.NumEqual(x, m) {
					f = true
				}
			}
			if !f {
				o.SS = append(o.SS, m)
			}
		}
	case "BS":
		for _, m := range b.BS {
			f := false
			for _, x := range o.BS {
				if bytes.Equal(x, m) {
					f = true
				}
			}
			if !f {
				o.BS = append(o.BS, append([]byte{}, m...))
			}
		}
	}
	return o
}

func setMinus(a, b val.V) val.V {
	o := val.V{T: a.T}
	switch a.T {
	case "SS":
		o.SS = []string{}
		for _, m := range a.SS {
			if !containsStr(b.SS, m) {
				o.SS = append(o.SS, m)
			}
		}
	case "NS":
		o.SS = []string{}
		for _, m := range a.SS {
			f := false
			for _, x := range b.SS {
				if val.NumEqual(x, m) {
					f = true
				}
			}
			if !f {
				o.SS = append(o.SS, m)
			}
		}
	case "BS":
		o.BS = [][]byte{}
		for _, m := range a.BS {
			f := false
			for _, x := range b.BS {
				if bytes.Equal(x, m) {
					f = true
				}
			}
			if !f {
				o.BS = append(o.BS, append([]byte{}, m...))
			}
		}
	}
	return o
}

func containsStr(s []string, x string) bool {
	for _, y := range s {
		if y == x {
			return true
		}
	}
	return false
}
