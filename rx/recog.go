package rx

// A deliberately generous reference recogniser for the two expression grammars. It only rejects
// what the property names: unknown characters, dangling operators and other incomplete
// sentences, unbalanced parentheses / brackets, trailing or juxtaposed tokens; keywords are
// upper-case only, so a lower-case "and" is a name and makes the sentence juxtaposed.
// Everything it accepts may still be rejected by the implementation for other reasons.

type rtok struct {
	k string // ident, sym, illegal
	s string
}

func rlex(in string) ([]rtok, bool) {
	var out []rtok
	i := 0
	isIdent := func(c byte) bool {
		return c >= 'a' && c <= 'z' || c >= 'A' && c <= 'Z' || c >= '0' && c <= '9' || c == '_' || c == ':' || c == '#'
	}
	for i < len(in) {
		c := in[i]
		switch {
		case c == ' ' || c == '\t' || c == '\n' || c == '\r':
			i++
		case isIdent(c):
			j := i
			for j < len(in) && isIdent(in[j]) {
				j++
			}
			out = append(out, rtok{"ident", in[i:j]})
			i = j
		case c == '<':
			if i+1 < len(in) && (in[i+1] == '>' || in[i+1] == '=') {
				out = append(out, rtok{"sym", in[i : i+2]})
				i += 2
			} else {
				out = append(out, rtok{"sym", "<"})
				i++
			}
		case c == '>':
			if i+1 < len(in) && in[i+1] == '=' {
				out = append(out, rtok{"sym", ">="})
				i += 2
			} else {
				out = append(out, rtok{"sym", ">"})
				i++
			}
		case c == '=' || c == '(' || c == ')' || c == ',' || c == '.' || c == '[' || c == ']' || c == '+' || c == '-':
			out = append(out, rtok{"sym", string(c)})
			i++
		default:
			return nil, false
		}
	}
	return out, true
}

var condKeywords = map[string]bool{"AND": true, "OR": true, "NOT": true, "BETWEEN": true, "IN": true, "SET": true, "REMOVE": true, "ADD": true, "DELETE": true}

type rparser struct {
	t   []rtok
	pos int
}

func (p *rparser) peek() rtok {
	if p.pos < len(p.t) {
		return p.t[p.pos]
	}
	return rtok{"eof", ""}
}

func (p *rparser) sym(s string) bool {
	if t := p.peek(); t.k == "sym" && t.s == s {
		p.pos++
		return true
	}
	return false
}

func (p *rparser) kw(s string) bool {
	if t := p.peek(); t.k == "ident" && t.s == s {
		p.pos++
		return true
	}
	return false
}

func (p *rparser) name() bool {
	t := p.peek()
	if t.k == "ident" && !condKeywords[t.s] {
		p.pos++
		return true
	}
	return false
}

// operand ::= '(' operand ')' | name [ '(' [operand {',' operand}] ')' ] { '.' name | '[' name ']' }
func (p *rparser) operand() bool {
	if p.sym("(") {
		if !p.operand() || !p.sym(")") {
			return false
		}
		return true
	}
	if !p.name() {
		return false
	}
	if p.sym("(") {
		if !p.sym(")") {
			for {
				if !p.operand() {
					return false
				}
				if p.sym(",") {
					continue
				}
				break
			}
			if !p.sym(")") {
				return false
			}
		}
	}
	for {
		if p.sym(".") {
			if !p.name() {
				return false
			}
			continue
		}
		if p.sym("[") {
			if !p.name() || !p.sym("]") {
				return false
			}
			continue
		}
		break
	}
	return true
}

func (p *rparser) condOr() bool {
	if !p.condAnd() {
		return false
	}
	for p.kw("OR") {
		if !p.condAnd() {
			return false
		}
	}
	return true
}

func (p *rparser) condAnd() bool {
	if !p.condNot() {
		return false
	}
	for p.kw("AND") {
		if !p.condNot() {
			return false
		}
	}
	return true
}

func (p *rparser) condNot() bool {
	if p.kw("NOT") {
		return p.condNot()
	}
	return p.condPrimary()
}

var cmpSyms = map[string]bool{"=": true, "<>": true, "<": true, "<=": true, ">": true, ">=": true}

func (p *rparser) condPrimary() bool {
	// a parenthesised condition or a parenthesised operand: try the condition first
	if t := p.peek(); t.k == "sym" && t.s == "(" {
		save := p.pos
		p.pos++
		if p.condOr() && p.sym(")") {
			// may still be the left operand of a comparison: "(a = b) = c" is not DynamoDB, but
			// the generous grammar only needs to know that the parentheses balance
			return p.condTail()
		}
		p.pos = save
	}
	if !p.operand() {
		return false
	}
	return p.condTail()
}

// condTail: after an operand (or a function call, which operand() already consumed):
// [ cmp operand | BETWEEN operand AND operand | IN '(' operand {',' operand} ')' ]
func (p *rparser) condTail() bool {
	t := p.peek()
	switch {
	case t.k == "sym" && cmpSyms[t.s]:
		p.pos++
		return p.operand()
	case t.k == "ident" && t.s == "BETWEEN":
		p.pos++
		return p.operand() && p.kw("AND") && p.operand()
	case t.k == "ident" && t.s == "IN":
		p.pos++
		if !p.sym("(") {
			return false
		}
		for {
			if !p.operand() {
				return false
			}
			if p.sym(",") {
				continue
			}
			break
		}
		return p.sym(")")
	}
	return true // a bare function call / operand: generous
}

// IsCondSentence reports whether the string may be a complete sentence of the condition grammar.
func IsCondSentence(in string) bool {
	toks, ok := rlex(in)
	if !ok || len(toks) == 0 {
		return false
	}
	p := &rparser{t: toks}
	return p.condOr() && p.pos == len(toks)
}

// value ::= term { ('+'|'-') term }
func (p *rparser) value() bool {
	if !p.operand() {
		return false
	}
	for {
		t := p.peek()
		if t.k == "sym" && (t.s == "+" || t.s == "-") {
			p.pos++
			if !p.operand() {
				return false
			}
			continue
		}
		return true
	}
}

// IsUpdateSentence reports whether the string may be a complete sentence of the update grammar:
// one or more clauses SET p = v {, p = v} | REMOVE p {, p} | ADD p v {, p v} | DELETE p v {, p v}.
func IsUpdateSentence(in string) bool {
	toks, ok := rlex(in)
	if !ok || len(toks) == 0 {
		return false
	}
	p := &rparser{t: toks}
	clauses := 0
	for p.pos < len(toks) {
		t := p.peek()
		if t.k != "ident" {
			return false
		}
		switch t.s {
		case "SET":
			p.pos++
			for {
				if !p.operand() || !p.sym("=") || !p.value() {
					return false
				}
				if !p.sym(",") {
					break
				}
			}
		case "REMOVE":
			p.pos++
			for {
				if !p.operand() {
					return false
				}
				if !p.sym(",") {
					break
				}
			}
		case "ADD", "DELETE":
			p.pos++
			for {
				// generous: the implementation also accepts arithmetic as the operand value
				if !p.operand() || !p.value() {
					return false
				}
				if !p.sym(",") {
					break
				}
			}
		default:
			return false
		}
		clauses++
	}
	return clauses > 0
}
