package checks

import (
	"verif/drv"
	"verif/ev"
	"verif/mc"
	"verif/model"
	"verif/rx"
	"verif/val"
)

func init() { Registry["C01"] = C01 }

// c01Alphabet: every single-item operation on every key of the universe.
func c01Alphabet(keys []val.Item, thorough bool, lean bool) func(m *model.Model) []drv.Op {
	return func(m *model.Model) []drv.Op {
		t := m.Tables["tab"]
		var ops []drv.Op
		for _, k := range keys {
			ks := func(tag string, o drv.Op) {
				// the lean alphabet (number-key schema) keeps one operation of every kind
				if lean && (tag == "Put(shrink)" || tag == "Put(nested)" || tag == "Upd(SET b)" || tag == "Upd(SET b, string)" || tag == "Upd(rejected: operand absent)" || tag == "Put(rejected: condition)" || tag == "Del(rejected: condition)") {
					return
				}
				o.Tag = tag
				o.Table = "tab"
				ops = append(ops, o)
			}
			ks("Get", drv.Op{K: drv.KGet, Key: k})
			ks("Put(full)", drv.Op{K: drv.KPut, Item: with(k, "a", val.S("p"), "b", val.N("1"))})
			ks("Put(shrink)", drv.Op{K: drv.KPut, Item: with(k, "a", val.S("q"))})
			ks("Put(bare)", drv.Op{K: drv.KPut, Item: k.Clone()})
			// an item with nested values (sets inside a list and a map): what is read back is what was written
			ks("Put(nested)", drv.Op{K: drv.KPut, Item: with(k, "a", val.L(val.NS("1", "2"), val.SS("x", "y"), val.S("e"), val.M("ns", val.NS("3"), "l", val.L(val.BS([]byte{1})))))})
			ks("Del(ALL_OLD)", drv.Op{K: drv.KDel, Key: k, AllOld: true})
			ks("Upd(SET a)", drv.Op{K: drv.KUpd, Key: k, Upd: rx.U(rx.Set("a", rx.RV(":v"))), Values: map[string]val.V{":v": val.S("u")}})
			ks("Upd(SET b)", drv.Op{K: drv.KUpd, Key: k, Upd: rx.U(rx.Set("b", rx.RV(":n"))), Values: map[string]val.V{":n": val.N("7")}})
			// the same text with another type: the write replaces the value all the same
			ks("Upd(SET b, string)", drv.Op{K: drv.KUpd, Key: k, Upd: rx.U(rx.Set("b", rx.RV(":n"))), Values: map[string]val.V{":n": val.S("7")}})
			// ADD c :one is enabled while c < 2 (keeps the alphabet closed)
			enabled := true
			for _, it := range t.Items {
				same := val.Equal(it["h"], k["h"])
				if r, ok := k["r"]; ok {
					same = same && val.Equal(it["r"], r)
				}
				if same {
					if c, ok := it["c"]; ok && c.T == "N" && val.MustDec(c.S).Cmp(val.MustDec("2")) >= 0 {
						enabled = false
					}
				}
			}
			if enabled {
				ks("Upd(ADD c)", drv.Op{K: drv.KUpd, Key: k, Upd: rx.U(rx.Add("c", ":one")), Values: map[string]val.V{":one": val.N("1")}})
			}
			ks("Upd(REMOVE a)", drv.Op{K: drv.KUpd, Key: k, Upd: rx.U(rx.Remove("a"))})
			// writes that are rejected (on a stored and on an absent key): the map must not change
			ks("Upd(rejected: operand absent)", drv.Op{K: drv.KUpd, Key: k, Upd: rx.U(rx.Set("a", rx.RPlus(rx.RP("zz"), rx.RV(":one")))), Values: map[string]val.V{":one": val.N("1")}})
			ks("Upd(rejected: condition)", drv.Op{K: drv.KUpd, Key: k, Upd: rx.U(rx.Set("a", rx.RV(":v"))), Cond: rx.Exists("zz"), Values: map[string]val.V{":v": val.S("no")}})
			ks("Put(rejected: condition)", drv.Op{K: drv.KPut, Item: with(k, "a", val.S("no")), Cond: rx.Exists("zz")})
			ks("Del(rejected: condition)", drv.Op{K: drv.KDel, Key: k, Cond: rx.Exists("zz")})
			if thorough {
				bad := "SET a = :v,"
				ks("Upd(rejected: syntax)", drv.Op{K: drv.KUpd, Key: k, UpdStr: &bad, Values: map[string]val.V{":v": val.S("no")}})
			}
			if thorough {
				ks("Upd(SET a,REMOVE b)", drv.Op{K: drv.KUpd, Key: k, Upd: rx.U(rx.Set("a", rx.RV(":v")), rx.Remove("b")), Values: map[string]val.V{":v": val.S("w")}})
			}
		}
		return ops
	}
}

// C01: single-item operations behave as a sequential key-to-item map.
func C01(run *ev.Run, tier string) map[string]interface{} {
	thorough := tier == "thorough"
	dl := deadline(tier)
	type schema struct {
		name string
		cfg  drv.TableCfg
		keys []val.Item
	}
	// keys that are prefixes of one another and straddle the internal separator in sort order
	hKeys := []val.Item{hKey("k1"), hKey("k10")}
	hrKeys := []val.Item{hrKey("a", "x"), hrKey("a", "x-")}
	// composite keys that an incomplete escaping of the separator would merge (hash ending in the
	// escape character, dot in the range / dot in the hash)
	escKeys := []val.Item{hrKey("c\\", "x.y"), hrKey("c.x", "y")}
	if thorough {
		hKeys = append(hKeys, hKey("k-"))
		hrKeys = append(hrKeys, hrKey("a-", "x"))
	}
	schemas := []schema{
		{"H", drv.TableCfg{Hash: "h", HashT: "S", Billing: "PAY_PER_REQUEST"}, hKeys},
		{"HR", drv.TableCfg{Hash: "h", HashT: "S", Range: "r", RangeT: "S", Billing: "PAY_PER_REQUEST"}, hrKeys},
		// number keys that are neighbours beyond float64's 53 bits (64-bit ids): distinct keys, distinct items
		{"HR(S,N)", drv.TableCfg{Hash: "h", HashT: "S", Range: "r", RangeT: "N", Billing: "PAY_PER_REQUEST"},
			[]val.Item{{"h": val.S("a"), "r": val.N("1234567890123456789")}, {"h": val.S("a"), "r": val.N("1234567890123456788")}}},
		{"HR(escape)", drv.TableCfg{Hash: "h", HashT: "S", Range: "r", RangeT: "S", Billing: "PAY_PER_REQUEST"}, escKeys},
	}
	total, per := exploreBoth(run, func(newImpl func() drv.Driver, dn string) []mc.Sys {
		var out []mc.Sys
		for _, sc := range schemas {
			sc := sc
			u := Universe{Keys: map[string][]val.Item{"tab": sc.keys}}
			maxStates := 6000
			if thorough {
				maxStates = 400000
			}
			out = append(out, mc.Sys{
				Name:      "C01/" + sc.name,
				NewImpl:   newImpl,
				Init:      []drv.Op{{K: drv.KCreate, Table: "tab", Cfg: &sc.cfg}},
				Alphabet:  c01Alphabet(sc.keys, thorough, !thorough && (sc.name == "HR(S,N)" || sc.name == "HR(escape)")),
				Observe:   func(m *model.Model) []drv.Op { return ObserveOps(m, u) },
				SigOf:     mc.DefaultSig("C01"),
				MaxStates: maxStates,
				Deadline:  dl,
			})
		}
		return out
	})
	cov := total.Coverage()
	cov["per_system"] = per
	cov["alphabet"] = "Get, Put(full|shrinking|bare|nested values), Del(ALL_OLD), Upd(SET a | SET b = N 7 | SET b = S 7 | ADD c (c<2) | REMOVE a) and rejected writes (update whose operand is absent, false conditions on Put/Upd/Del; thorough: a syntax error) on every key; schemas H(h:S), HR(h:S,r:S), HR(h:S,r:N) with number keys that are neighbours beyond 2^53 and HR(h:S,r:S) with a hash key ending in a backslash next to keys containing dots (the last two with one operation of every kind in the quick tier); both SDK adapters"
	cov["oracle"] = "reference map key->item in lock-step; after every transition: DescribeTable, GetItem of every key, Scan, Query of every partition in both directions"
	return cov
}
