package checks

import (
	"fmt"
	"sync"
	"sync/atomic"

	"verif/drv"
	"verif/ev"
	"verif/rx"
	"verif/val"
)

func init() { Registry["C10"] = C10 }

// c10Leaves are the boundary members of every type.
func c10Leaves() []val.V {
	return []val.V{
		val.S(""), val.S("a"),
		val.N("0"), val.N("-0"), val.N("1.50"), val.N("1e2"), val.N("0.10"), val.N("12345678901234567890123456789012345678"),
		val.V{T: "B", B: []byte{}}, val.B(1),
		val.Bool(true), val.Bool(false),
		val.Null(),
		val.SS("x"), val.SS("x", "y"), val.NS("1"), val.NS("1", "2.0"), val.NS("12345678901234567890123456789012345678", "12345678901234567890123456789012345679"), val.BS([]byte{1}), val.BS([]byte{1}, []byte{}),
	}
}

// containersOver builds every list and map with 0, 1 and 2 children drawn from kids.
func containersOver(kids []val.V) []val.V {
	out := []val.V{val.L(), val.M()}
	for _, a := range kids {
		out = append(out, val.L(a), val.M("k1", a))
		for _, b := range kids {
			out = append(out, val.L(a, b), val.M("k1", a, "k2", b))
		}
	}
	return out
}

func c10Trees(thorough bool) []val.V {
	leaves := c10Leaves()
	trees := append([]val.V{}, leaves...)
	d2 := containersOver(leaves)
	trees = append(trees, d2...)
	if thorough {
		// depth 3: containers over one representative per type plus the depth-2 boundary shapes
		reps := []val.V{val.S(""), val.N("1.50"), val.V{T: "B", B: []byte{}}, val.Bool(false), val.Null(), val.SS("x"), val.NS("1"), val.BS([]byte{1}),
			val.L(), val.M(), val.L(val.S("")), val.M("k1", val.Null()), val.L(val.L()), val.M("k1", val.M()), val.L(val.V{T: "B", B: []byte{}}, val.Bool(false)), val.M("k1", val.L(), "k2", val.N("-0"))}
		trees = append(trees, containersOver(reps)...)
		// depth 3 over every leaf and every fifth depth-2 container
		kids := append([]val.V{}, leaves...)
		for i := 0; i < len(d2); i += 5 {
			kids = append(kids, d2[i])
		}
		trees = append(trees, containersOver(kids)...)
		// depth 4 spine
		deep := val.S("bottom")
		for i := 0; i < 4; i++ {
			deep = val.L(val.M("k", deep), val.L())
			trees = append(trees, deep)
		}
	}
	// numbers in every notation: sign x mantissa (integer, fraction, trailing and leading zeros) x
	// exponent part (none, lower- and upper-case marker, signed, several digits, zero), each as a
	// number, inside a list and as a member of a number set
	for _, sg := range []string{"", "-"} {
		for _, m := range []string{"1", "1.5", "10", "0.5", "1.50", "007", "100"} {
			for _, e := range []string{"", "e2", "E2", "e+20", "E+20", "e-10", "E-10", "E100", "e0", "E0"} {
				n := sg + m + e
				trees = append(trees, val.M("n", val.N(n), "l", val.L(val.N(n)), "ns", val.NS(n, "424242")))
			}
		}
	}
	return trees
}

// C10: attribute values survive a write/read round trip unchanged.
func C10(run *ev.Run, tier string) map[string]interface{} {
	thorough := tier == "thorough"
	trees := c10Trees(thorough)
	var evals int64
	hist := map[string]int{}
	var mu sync.Mutex
	ch := make(chan int, 256)
	var wg sync.WaitGroup
	cfg := drv.TableCfg{Hash: "h", HashT: "S", Billing: "PAY_PER_REQUEST", GSI: []drv.IndexCfg{{Name: "gsi", Hash: "oth", HashT: "S"}}}
	for w := 0; w < 16; w++ {
		wg.Add(1)
		go func() {
			defer wg.Done()
			for ti := range ch {
				tree := trees[ti]
				for _, d := range Drivers {
					item := val.Item{"h": val.S("k"), "v": tree, "oth": val.S("o")}
					ev.Breadcrumb(fmt.Sprintf("round trip via %s of %s", d.Name, tree.CanonText()))
					impl := d.New()
					impl.Do(drv.Op{K: drv.KCreate, Table: "tab", Cfg: &cfg})
					if r := impl.Do(drv.Op{K: drv.KPut, Table: "tab", Item: item}); r.Err != "" {
						run.Report(fmt.Sprintf("C10|PutItem-rejected|%s|%s@%s", tree.T, r.Err, d.Name), fmt.Sprintf("PutItem of %s: %s %s", tree.CanonText(), r.Err, r.Msg), map[string]interface{}{"driver": d.Name, "value": tree})
						continue
					}
					key := val.Item{"h": val.S("k")}
					reads := []struct {
						path string
						op   drv.Op
					}{
						{"GetItem", drv.Op{K: drv.KGet, Table: "tab", Key: key}},
						{"Query", drv.Op{K: drv.KQuery, Table: "tab", KeyCond: rx.Eq("h", ":k"), Values: map[string]val.V{":k": val.S("k")}}},
						{"Scan", drv.Op{K: drv.KScan, Table: "tab"}},
						// a page that fills (a LastEvaluatedKey is produced next to the item)
						{"Query(Limit 1)", drv.Op{K: drv.KQuery, Table: "tab", KeyCond: rx.Eq("h", ":k"), Values: map[string]val.V{":k": val.S("k")}, Limit: 1}},
						{"Scan(Limit 1)", drv.Op{K: drv.KScan, Table: "tab", Limit: 1}},
						// through a secondary index
						{"Query(index)", drv.Op{K: drv.KQuery, Table: "tab", Index: "gsi", KeyCond: rx.Eq("oth", ":o"), Values: map[string]val.V{":o": val.S("o")}}},
						{"Scan(index, Limit 1)", drv.Op{K: drv.KScan, Table: "tab", Index: "gsi", Limit: 1}},
					}
					if d.Name == "v2" {
						reads = append(reads, struct {
							path string
							op   drv.Op
						}{"BatchGetItem", drv.Op{K: drv.KBatchGet, BGKeys: map[string][]val.Item{"tab": {key}}}})
					}
					check := func(path string, got val.Item, present bool) {
						atomic.AddInt64(&evals, 1)
						mu.Lock()
						hist[path]++
						mu.Unlock()
						if !present {
							run.Report(fmt.Sprintf("C10|%s|item-not-returned|%s@%s", path, tree.T, d.Name), fmt.Sprintf("%s did not return the item holding %s", path, tree.CanonText()), map[string]interface{}{"driver": d.Name, "path": path, "value": tree})
							return
						}
						if val.ItemEqual(got, item) {
							return
						}
						explained := val.ItemEqual(NullifyEmpty(item), got)
						where := "nested"
						if g, ok := got["v"]; ok && g.T != tree.T {
							where = "top"
						}
						run.Report(fmt.Sprintf("C10|%s|value-changed|explained-by-empty-container-returned-as-NULL=%v|%s@%s", path, explained, where, d.Name),
							fmt.Sprintf("%s: wrote %s read %s", path, item.CanonText(), got.CanonText()), map[string]interface{}{"driver": d.Name, "path": path, "value": tree})
					}
					for _, rd := range reads {
						r := impl.Do(rd.op)
						if r.Err != "" {
							run.Report(fmt.Sprintf("C10|%s|read-failed|%s|%s@%s", rd.path, tree.T, r.Err, d.Name), fmt.Sprintf("%s after PutItem of %s: %s %s", rd.path, tree.CanonText(), r.Err, r.Msg), map[string]interface{}{"driver": d.Name, "path": rd.path, "value": tree})
							continue
						}
						switch rd.path {
						case "GetItem":
							check(rd.path, r.Item, len(r.Item) > 0)
						case "BatchGetItem":
							its := r.BGResp["tab"]
							if len(its) == 1 {
								check(rd.path, its[0], true)
							} else {
								check(rd.path, nil, false)
							}
						default:
							if len(r.Items) == 1 {
								check(rd.path, r.Items[0], true)
							} else {
								check(rd.path, nil, false)
							}
						}
					}
					// the round trip every UpdateItem performs on all attributes of the item
					u := impl.Do(drv.Op{K: drv.KUpd, Table: "tab", Key: key, Upd: rx.U(rx.Set("oth", rx.RV(":o"))), Values: map[string]val.V{":o": val.S("o")}})
					if u.Err != "" {
						run.Report(fmt.Sprintf("C10|UpdateItem-of-unrelated-attribute|failed|%s|%s@%s", tree.T, u.Err, d.Name), fmt.Sprintf("UpdateItem SET oth on an item holding %s: %s %s", tree.CanonText(), u.Err, u.Msg), map[string]interface{}{"driver": d.Name, "value": tree})
						continue
					}
					g := impl.Do(drv.Op{K: drv.KGet, Table: "tab", Key: key})
					check("GetItem-after-unrelated-UpdateItem", g.Item, len(g.Item) > 0)
					// the item is written once more under the same primary and index key with another value,
					// and back: reads through the index return what was written last
					second := val.Item{"h": val.S("k"), "v": val.S("second version"), "oth": val.S("o")}
					for _, w := range []val.Item{second, item} {
						if r := impl.Do(drv.Op{K: drv.KPut, Table: "tab", Item: w}); r.Err != "" {
							continue
						}
						r := impl.Do(drv.Op{K: drv.KQuery, Table: "tab", Index: "gsi", KeyCond: rx.Eq("oth", ":o"), Values: map[string]val.V{":o": val.S("o")}})
						atomic.AddInt64(&evals, 1)
						if r.Err != "" || len(r.Items) != 1 || !(val.ItemEqual(r.Items[0], w) || val.ItemEqual(NullifyEmpty(w), r.Items[0])) {
							run.Report(fmt.Sprintf("C10|Query(index)-after-rewrite|value-changed|%s@%s", tree.T, d.Name), fmt.Sprintf("after rewriting the item as %s, Query through the index returns %s", w.CanonText(), r.Short()), map[string]interface{}{"driver": d.Name, "path": "Query(index)-after-rewrite", "value": tree})
						}
					}
				}
			}
		}()
	}
	for i := range trees {
		ch <- i
	}
	close(ch)
	wg.Wait()
	samples := []interface{}{}
	for i := 0; i < len(trees) && len(samples) < 6; i += len(trees)/6 + 1 {
		samples = append(samples, trees[i].CanonText())
	}
	return map[string]interface{}{
		"evaluations":         evals,
		"distinct_nontrivial": len(trees),
		"rule":                "every attribute-value tree over the boundary leaves (empty and non-empty S and B, numbers in several notations incl. -0 / 1.50 / 1e2 and the family sign x mantissa x exponent part (e/E, signed, 1-3 digits), both booleans, NULL, sets with one and two members) of depth 1 and 2 (lists and maps with 0, 1, 2 children; thorough: depth 3 over representatives and a depth-5 spine), stored as a non-key attribute with PutItem and read back through GetItem, Query, Scan, Query and Scan with Limit 1 (a filled page), Query and Scan through a secondary index, BatchGetItem (SDK v2) GetItem after an UpdateItem of an unrelated attribute and Query through the index after the item was rewritten under the same keys, in both SDK clients; a tree is distinct by its canonical text",
		"oracle":              "structural equality of names, types and values (sets as sets, numbers by numeric value)",
		"samples":             samples,
		"exhaustive":          true,
		"reads_by_path":       hist,
	}
}
