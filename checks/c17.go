package checks

import (
	"strings"

	"verif/drv"
	"verif/ev"
	"verif/mc"
	"verif/model"
	"verif/rx"
	"verif/val"
)

func init() { Registry["C17"] = C17 }

// c17Invalid is the menu of malformed inputs on which the two adapters are compared.
func c17Invalid() []drv.Op {
	var ops []drv.Op
	add := func(tag string, o drv.Op) {
		o.Tag = "INVALID:" + tag
		ops = append(ops, o)
	}
	cfg := drv.TableCfg{Hash: "h", HashT: "S", Billing: "PAY_PER_REQUEST"}
	add("CreateTable(2-character name)", drv.Op{K: drv.KCreate, Table: "ab", Cfg: &cfg})
	add("CreateTable(empty name)", drv.Op{K: drv.KCreate, Table: "", Cfg: &cfg})
	add("Put(empty table name)", drv.Op{K: drv.KPut, Table: "", Item: hKey("k1")})
	add("Get(nil key)", drv.Op{K: drv.KGet, Table: "tab"})
	add("Del(nil key)", drv.Op{K: drv.KDel, Table: "tab"})
	add("Put(nil item)", drv.Op{K: drv.KPut, Table: "tab"})
	add("Query(no key condition)", drv.Op{K: drv.KQuery, Table: "tab"})
	add("Upd(empty update expression)", drv.Op{K: drv.KUpd, Table: "tab", Key: hKey("k1"), UpdStr: sp("")})
	add("Upd(no update expression)", drv.Op{K: drv.KUpd, Table: "tab", Key: hKey("k1")})
	add("Put(empty condition)", drv.Op{K: drv.KPut, Table: "tab", Item: hKey("k1"), CondStr: sp("")})
	add("Scan(unknown index)", drv.Op{K: drv.KScan, Table: "tab", Index: "nosuchindex"})
	add("Describe(empty name)", drv.Op{K: drv.KDescribe, Table: ""})
	return ops
}

// C17: the SDK v1 and SDK v2 clients are behaviourally equivalent.
func C17(run *ev.Run, tier string) map[string]interface{} {
	thorough := tier == "thorough"
	dl := deadline(tier)
	newImpl := func() drv.Driver { return &drv.Product{A: drv.NewV1(), B: drv.NewV2()} }
	check := func(op drv.Op, got, want drv.Resp) *drv.Diff { return got.PairDiff }
	var systems []mc.Sys
	mk := func(name string, ni func() drv.Driver, init []drv.Op, alpha func(m *model.Model) []drv.Op, obs func(m *model.Model) []drv.Op, maxStates int) {
		systems = append(systems, mc.Sys{Name: "C17/" + name, NewImpl: ni, Init: init, Alphabet: alpha, Observe: obs, SigOf: mc.DefaultSig("C17"), Check: check, MaxStates: maxStates, Deadline: dl})
	}
	cap := 4000
	if thorough {
		cap = 60000
	}
	// single-item operations (C01)
	hk := []val.Item{hKey("k1"), hKey("k2")}
	hcfg := drv.TableCfg{Hash: "h", HashT: "S", Billing: "PAY_PER_REQUEST"}
	u1 := Universe{Keys: map[string][]val.Item{"tab": hk}}
	inv := c17Invalid()
	a01 := c01Alphabet(hk, thorough, false)
	mk("single-item+invalid-inputs", newImpl, []drv.Op{{K: drv.KCreate, Table: "tab", Cfg: &hcfg}},
		func(m *model.Model) []drv.Op { return append(a01(m), inv...) },
		func(m *model.Model) []drv.Op { return ObserveOps(m, u1) }, cap)
	// index maintenance (C03) on the three configurations
	for _, c := range c03Configs(false) {
		c := c
		u := Universe{Keys: map[string][]val.Item{"tab": c.keys}}
		mk("indexes/"+c.name, newImpl, []drv.Op{{K: drv.KCreate, Table: "tab", Cfg: &c.cfg}}, c03Alphabet(c), func(m *model.Model) []drv.Op { return ObserveOps(m, u) }, cap)
	}
	// failing requests (C08 menu) and conditional writes (C05)
	{
		keys := []val.Item{hKey("k1"), hKey("k2")}
		cfg := c03cfg{name: "GSI-hash", cfg: drv.TableCfg{Hash: "h", HashT: "S", Billing: "PAY_PER_REQUEST", GSI: []drv.IndexCfg{{Name: "gsi", Hash: "g", HashT: "S"}}}, keys: keys}
		writes := c03Alphabet(cfg)
		failing := c08Failing(keys, false, false)
		u := Universe{Keys: map[string][]val.Item{"tab": keys, "tb2": keys[:1], "other": {}}}
		mk("failing-requests", newImpl, []drv.Op{{K: drv.KCreate, Table: "tab", Cfg: &cfg.cfg}, {K: drv.KCreate, Table: "tb2", Cfg: &hcfg}}, // (tb2: the second table of C08's two-table batches)
			func(m *model.Model) []drv.Op { return append(writes(m), failing...) },
			func(m *model.Model) []drv.Op { return ObserveOps(m, u) }, cap)
		// a menu request that the implementation accepts is compared but not explored further
		// (a request that fails in both clients is expanded: a trace it leaves in one of them only
		// shows in later operations)
		systems[len(systems)-1].NoExpand = func(op drv.Op, got drv.Resp) bool { return strings.HasPrefix(op.Tag, "FAIL:") && got.Err == "" }
		ck := []val.Item{hKey("t"), hKey("b1")}
		uc := Universe{Keys: map[string][]val.Item{"tab": ck}}
		mk("conditional-writes", newImpl, []drv.Op{{K: drv.KCreate, Table: "tab", Cfg: &cfg.cfg}}, c05Alphabet(ck, c05Conds(thorough), false),
			func(m *model.Model) []drv.Op { return ObserveOps(m, uc) }, cap)
	}
	// failure toggles (C15) and batches (C19)
	{
		u := Universe{Keys: map[string][]val.Item{"tba": {hKey("k1"), hKey("k2")}, "tbb": {hKey("k1"), hKey("k2")}}}
		init := []drv.Op{{K: drv.KCreate, Table: "tba", Cfg: &hcfg}, {K: drv.KCreate, Table: "tbb", Cfg: &hcfg}}
		// plus requests that are invalid on their own (unused and undefined placeholders, syntax
		// errors, malformed keys): which of the two errors wins must not depend on the client
		a15 := c15Alphabet(thorough, true)
		var invalid []drv.Op
		for _, f := range c08Failing([]val.Item{hKey("k1"), hKey("k2")}, false, false) {
			if k, ok := f.Key["h"]; ok && k.S == "k2" {
				continue
			}
			if k, ok := f.Item["h"]; ok && k.S == "k2" {
				continue
			}
			keep := false
			for _, w := range []string{"unused", "undefined", "syntax error", "missing key", "wrong-typed key"} {
				keep = keep || strings.Contains(f.Tag, w)
			}
			if keep && f.Table == "tab" && (f.K == drv.KPut || f.K == drv.KUpd || f.K == drv.KDel || f.K == drv.KGet || f.K == drv.KQuery || f.K == drv.KScan) {
				f.Table = "tba"
				f.Tag = "INVALID:" + strings.TrimPrefix(f.Tag, "FAIL:")
				invalid = append(invalid, f)
			}
		}
		mk("failure-toggles", newImpl, init, func(m *model.Model) []drv.Op { return append(a15(m), invalid...) }, func(m *model.Model) []drv.Op { return ObserveOps(m, u) }, cap)
		slots := []c19slot{{"tba", hKey("k1")}, {"tba", hKey("k2")}, {"tbb", hKey("k1")}}
		mk("batches", newImpl, init, c19Alphabet(slots, 2), func(m *model.Model) []drv.Op { return ObserveOps(m, u) }, cap)
	}
	// lifecycle (C18)
	{
		// (one table slot: the two-client catalogue is C18's; here the two SDK clients are compared)
		slots := []string{"tb1"}
		mk("lifecycle", newImpl, nil, c18Alphabet(slots, 1, false, false), c18Observe(slots), cap)
	}
	// attribute values: every value tree of C10's alphabet written and read back through both clients
	{
		var puts []drv.Op
		for _, t := range c10Trees(thorough) {
			puts = append(puts, drv.Op{K: drv.KPut, Tag: "Put(value tree)", Table: "tab", Item: val.Item{"h": val.S("k1"), "v": t}})
		}
		uv := Universe{Keys: map[string][]val.Item{"tab": {hKey("k1")}}}
		// once a value tree is stored, the observation also makes the interpreter read the whole item (an
		// update of an unrelated attribute, a copy of the value, a filter); the observation goes on after
		// a read that differs by the recorded empty-container finding
		follow := []drv.Op{
			{K: drv.KScan, Tag: "After:Scan(attribute_exists(v))", Table: "tab", Filter: rx.Exists("v")},
			{K: drv.KQuery, Tag: "After:Query(filter attribute_exists(v))", Table: "tab", KeyCond: rx.Eq("h", ":k"), Filter: rx.Exists("v"), Values: map[string]val.V{":k": val.S("k1")}},
			{K: drv.KUpd, Tag: "After:Upd(SET oth)", Table: "tab", Key: hKey("k1"), Upd: rx.U(rx.Set("oth", rx.RV(":o"))), Values: map[string]val.V{":o": val.S("o")}},
			{K: drv.KUpd, Tag: "After:Upd(SET w = v)", Table: "tab", Key: hKey("k1"), Upd: rx.U(rx.Set("w", rx.RP("v")))},
			{K: drv.KDel, Tag: "After:Del(attribute_exists(v), ALL_OLD)", Table: "tab", Key: hKey("k1"), Cond: rx.Exists("v"), AllOld: true},
		}
		mk("value-trees", newImpl, []drv.Op{{K: drv.KCreate, Table: "tab", Cfg: &hcfg}}, func(m *model.Model) []drv.Op { return puts },
			func(m *model.Model) []drv.Op { return append(ObserveOps(m, uv), follow...) }, len(puts)+10)
		systems[len(systems)-1].NoExpand = func(op drv.Op, got drv.Resp) bool { return true }
		systems[len(systems)-1].ContinueAfterKnown = true
	}
	// queries and pagination: every state of the C02 space, the reduced menu with Limits 1 and 2
	for _, c := range queryConfigs(false) {
		c := c
		var menu []drv.Op
		for _, q := range queryMenu(c, true) {
			menu = append(menu, q)
			for _, l := range []int{1, 2} {
				ql := q
				ql.Limit = l
				menu = append(menu, ql)
			}
		}
		systems = append(systems, mc.Sys{Name: "C17/queries/" + c.name, NewImpl: newImpl, Init: []drv.Op{{K: drv.KCreate, Table: "tab", Cfg: &c.cfg}},
			Alphabet: universeAlphabet(c), Observe: func(m *model.Model) []drv.Op { return menu }, SigOf: mc.DefaultSig("C17"), Check: check, MaxStates: cap, Deadline: dl})
	}
	total := mc.Stats{Exhaustive: true}
	per := map[string]interface{}{}
	for _, s := range systems {
		st := mc.Explore(s, run)
		per[s.Name] = map[string]interface{}{"states": st.States, "transitions": st.Transitions, "max_depth": st.MaxDepth, "exhaustive": st.Exhaustive, "cap_hit": st.CapHit}
		total.Merge(st)
	}
	cov := total.Coverage()
	cov["per_system"] = per
	cov["alphabet"] = "the alphabets of C01, C03, C05, C08 (failing-request menu), C15, C18, C19 and the query/pagination menu of C02/C04, and a PutItem of every value tree of C10, each driven through the v1 and the v2 client in lock-step (product state = both clients), plus a menu of malformed inputs (short/empty table name, nil key, nil item, missing expressions, unknown index)"
	cov["oracle"] = "the normalised responses of the two clients are identical at every transition and for every observation read: success/failure, error class, items (Query: exact sequence), counts, LastEvaluatedKey, table descriptions, unprocessed items"
	return cov
}
