package checks

import (
	"context"
	"errors"
	"fmt"
	"strings"
	"sync"
	"sync/atomic"

	aws2 "github.com/aws/aws-sdk-go-v2/aws"
	ddb2 "github.com/aws/aws-sdk-go-v2/service/dynamodb"
	types2 "github.com/aws/aws-sdk-go-v2/service/dynamodb/types"
	aws1 "github.com/aws/aws-sdk-go/aws"
	ddb1 "github.com/aws/aws-sdk-go/service/dynamodb"
	v1c "github.com/truora/minidyn/aws-v1/client"
	v2c "github.com/truora/minidyn/aws-v2/client"
	"github.com/truora/minidyn/interpreter"
	itypes "github.com/truora/minidyn/types"

	"verif/ev"
)

func init() { Registry["C20"] = C20 }

type c20reg struct {
	table string
	kind  string // key filter conditional update
	text  string
	// via (requests only) selects how a conditional request is sent: "" = PutItem on the stored key,
	// "put-absent", "delete-stored", "delete-absent"
	via string
}

var c20Kinds = []string{"key", "filter", "conditional", "update"}

// texts per kind: index 0 and 1 are equal up to surrounding and repeated whitespace; 2 is a
// permutation of the characters of 0; 3 and 4 differ.
func c20Texts(kind string) []string {
	if kind == "update" {
		return []string{"SET a = :v", "  SET  a   =  :v ", "SET :v = a", "SET a = :w", "SET b = :v"}
	}
	return []string{"a = :v", "  a   =  :v ", ":v = a", "a = :w", "b = :v"}
}

func normWS(s string) string { return strings.Join(strings.Fields(s), " ") }

// c20client abstracts the two SDK clients for this check.
type c20client struct {
	name    string
	newC    func() interface{}
	setI    func(c interface{}, n *interpreter.Native)
	act     func(c interface{})
	create  func(c interface{}, table string) error
	put     func(c interface{}, table string) error
	drop    func(c interface{}, table string) error
	request func(c interface{}, r c20reg) (outcome string, err error) // outcome: "matched" / "not-matched" / "updated" / ...
	marker  func(c interface{}, table string) string                  // value of attribute "marker" of the item
}

func c20V2() c20client {
	ctx := context.Background()
	S := func(s string) types2.AttributeValue { return &types2.AttributeValueMemberS{Value: s} }
	N := func(s string) types2.AttributeValue { return &types2.AttributeValueMemberN{Value: s} }
	vals := func(text string) map[string]types2.AttributeValue {
		m := map[string]types2.AttributeValue{}
		if strings.Contains(text, ":v") {
			m[":v"] = N("1")
		}
		if strings.Contains(text, ":w") {
			m[":w"] = N("2")
		}
		return m
	}
	return c20client{
		name: "v2",
		newC: func() interface{} { return v2c.NewClient() },
		setI: func(c interface{}, n *interpreter.Native) { c.(*v2c.Client).SetInterpreter(n) },
		act:  func(c interface{}) { c.(*v2c.Client).ActivateNativeInterpreter() },
		create: func(c interface{}, table string) error {
			return v2c.AddTable(ctx, c.(*v2c.Client), table, "h", "")
		},
		drop: func(c interface{}, table string) error {
			_, err := c.(*v2c.Client).DeleteTable(ctx, &ddb2.DeleteTableInput{TableName: aws2.String(table)})
			return err
		},
		put: func(c interface{}, table string) error {
			_, err := c.(*v2c.Client).PutItem(ctx, &ddb2.PutItemInput{TableName: aws2.String(table), Item: map[string]types2.AttributeValue{"h": S("k"), "a": N("1"), "b": N("1")}})
			return err
		},
		request: func(ci interface{}, r c20reg) (string, error) {
			c := ci.(*v2c.Client)
			switch r.kind {
			case "key":
				o, err := c.Query(ctx, &ddb2.QueryInput{TableName: aws2.String(r.table), KeyConditionExpression: aws2.String(r.text), ExpressionAttributeValues: vals(r.text)})
				if err != nil {
					return "", err
				}
				return fmt.Sprintf("items=%d", len(o.Items)), nil
			case "filter":
				o, err := c.Scan(ctx, &ddb2.ScanInput{TableName: aws2.String(r.table), FilterExpression: aws2.String(r.text), ExpressionAttributeValues: vals(r.text)})
				if err != nil {
					return "", err
				}
				return fmt.Sprintf("items=%d", len(o.Items)), nil
			case "conditional":
				hk := "k"
				if strings.HasSuffix(r.via, "-absent") {
					hk = "nobody"
				}
				var err error
				if strings.HasPrefix(r.via, "delete") {
					_, err = c.DeleteItem(ctx, &ddb2.DeleteItemInput{TableName: aws2.String(r.table), Key: map[string]types2.AttributeValue{"h": S(hk)}, ConditionExpression: aws2.String(r.text), ExpressionAttributeValues: vals(r.text)})
				} else {
					_, err = c.PutItem(ctx, &ddb2.PutItemInput{TableName: aws2.String(r.table), Item: map[string]types2.AttributeValue{"h": S(hk), "a": N("1"), "b": N("1")}, ConditionExpression: aws2.String(r.text), ExpressionAttributeValues: vals(r.text)})
				}
				var ccf *types2.ConditionalCheckFailedException
				if errors.As(err, &ccf) {
					return "items=0", nil
				}
				if err != nil {
					return "", err
				}
				return "items=1", nil
			default:
				_, err := c.UpdateItem(ctx, &ddb2.UpdateItemInput{TableName: aws2.String(r.table), Key: map[string]types2.AttributeValue{"h": S("k")}, UpdateExpression: aws2.String(r.text), ExpressionAttributeValues: vals(r.text)})
				if err != nil {
					return "", err
				}
				return "updated", nil
			}
		},
		marker: func(ci interface{}, table string) string {
			o, err := ci.(*v2c.Client).GetItem(ctx, &ddb2.GetItemInput{TableName: aws2.String(table), Key: map[string]types2.AttributeValue{"h": S("k")}})
			if err != nil {
				return "error:" + err.Error()
			}
			s := ""
			for _, k := range []string{"marker", "a", "b"} {
				switch x := o.Item[k].(type) {
				case *types2.AttributeValueMemberS:
					s += k + "=" + x.Value + ";"
				case *types2.AttributeValueMemberN:
					s += k + "=" + x.Value + ";"
				}
			}
			return s
		},
	}
}

func c20V1() c20client {
	S := func(s string) *ddb1.AttributeValue { return &ddb1.AttributeValue{S: aws1.String(s)} }
	N := func(s string) *ddb1.AttributeValue { return &ddb1.AttributeValue{N: aws1.String(s)} }
	vals := func(text string) map[string]*ddb1.AttributeValue {
		m := map[string]*ddb1.AttributeValue{}
		if strings.Contains(text, ":v") {
			m[":v"] = N("1")
		}
		if strings.Contains(text, ":w") {
			m[":w"] = N("2")
		}
		return m
	}
	return c20client{
		name:   "v1",
		newC:   func() interface{} { return v1c.NewClient() },
		setI:   func(c interface{}, n *interpreter.Native) { c.(*v1c.Client).SetInterpreter(n) },
		act:    func(c interface{}) { c.(*v1c.Client).ActivateNativeInterpreter() },
		create: func(c interface{}, table string) error { return v1c.AddTable(c.(*v1c.Client), table, "h", "") },
		drop: func(c interface{}, table string) error {
			_, err := c.(*v1c.Client).DeleteTable(&ddb1.DeleteTableInput{TableName: aws1.String(table)})
			return err
		},
		put: func(c interface{}, table string) error {
			_, err := c.(*v1c.Client).PutItem(&ddb1.PutItemInput{TableName: aws1.String(table), Item: map[string]*ddb1.AttributeValue{"h": S("k"), "a": N("1"), "b": N("1")}})
			return err
		},
		request: func(ci interface{}, r c20reg) (string, error) {
			c := ci.(*v1c.Client)
			switch r.kind {
			case "key":
				o, err := c.Query(&ddb1.QueryInput{TableName: aws1.String(r.table), KeyConditionExpression: aws1.String(r.text), ExpressionAttributeValues: vals(r.text)})
				if err != nil {
					return "", err
				}
				return fmt.Sprintf("items=%d", len(o.Items)), nil
			case "filter":
				o, err := c.Scan(&ddb1.ScanInput{TableName: aws1.String(r.table), FilterExpression: aws1.String(r.text), ExpressionAttributeValues: vals(r.text)})
				if err != nil {
					return "", err
				}
				return fmt.Sprintf("items=%d", len(o.Items)), nil
			case "conditional":
				hk := "k"
				if strings.HasSuffix(r.via, "-absent") {
					hk = "nobody"
				}
				var err error
				if strings.HasPrefix(r.via, "delete") {
					_, err = c.DeleteItem(&ddb1.DeleteItemInput{TableName: aws1.String(r.table), Key: map[string]*ddb1.AttributeValue{"h": S(hk)}, ConditionExpression: aws1.String(r.text), ExpressionAttributeValues: vals(r.text)})
				} else {
					_, err = c.PutItem(&ddb1.PutItemInput{TableName: aws1.String(r.table), Item: map[string]*ddb1.AttributeValue{"h": S(hk), "a": N("1"), "b": N("1")}, ConditionExpression: aws1.String(r.text), ExpressionAttributeValues: vals(r.text)})
				}
				if err != nil {
					var ce interface{ Code() string }
					if errors.As(err, &ce) && ce.Code() == "ConditionalCheckFailedException" {
						return "items=0", nil
					}
					return "", err
				}
				return "items=1", nil
			default:
				_, err := c.UpdateItem(&ddb1.UpdateItemInput{TableName: aws1.String(r.table), Key: map[string]*ddb1.AttributeValue{"h": S("k")}, UpdateExpression: aws1.String(r.text), ExpressionAttributeValues: vals(r.text)})
				if err != nil {
					return "", err
				}
				return "updated", nil
			}
		},
		marker: func(ci interface{}, table string) string {
			o, err := ci.(*v1c.Client).GetItem(&ddb1.GetItemInput{TableName: aws1.String(table), Key: map[string]*ddb1.AttributeValue{"h": S("k")}})
			if err != nil {
				return "error:" + err.Error()
			}
			s := ""
			for _, k := range []string{"marker", "a", "b"} {
				if x := o.Item[k]; x != nil {
					if x.S != nil {
						s += k + "=" + *x.S + ";"
					}
					if x.N != nil {
						s += k + "=" + *x.N + ";"
					}
				}
			}
			return s
		},
	}
}

// builtin gives what the built-in interpreter answers for a request on the item {a:1, b:1}
// with :v=1, :w=2 (conditions), or the marker string after the built-in update.
func c20Builtin(r c20reg) string {
	switch normWS(r.text) {
	case "a = :v", ":v = a", "b = :v":
		return "items=1"
	case "a = :w":
		return "items=0"
	}
	return "?"
}

func c20BuiltinUpdate(text string) (markerAfter string, ok bool) {
	switch normWS(text) {
	case "SET a = :v":
		return "a=1;b=1;", true
	case "SET a = :w":
		return "a=2;b=1;", true
	case "SET b = :v":
		return "a=1;b=1;", true
	}
	return "", false // "SET :v = a" is not a valid update
}

// C20: native-interpreter overrides are dispatched exactly and fall back safely.
func C20(run *ev.Run, tier string) map[string]interface{} {
	thorough := tier == "thorough"
	tables := []string{"tb1", "tb12"} // (one name is a prefix of the other)
	var regs []c20reg
	for _, t := range tables {
		for _, k := range c20Kinds {
			for _, x := range c20Texts(k) {
				regs = append(regs, c20reg{table: t, kind: k, text: x})
			}
		}
	}
	// requests: every registration text of every kind and table; write conditions also through
	// PutItem on an absent key and DeleteItem on a stored and on an absent key
	requests := append([]c20reg{}, regs...)
	for _, r := range regs {
		if r.kind == "conditional" {
			for _, via := range []string{"put-absent", "delete-stored", "delete-absent"} {
				q := r
				q.via = via
				requests = append(requests, q)
			}
		}
	}
	// registration sets: none, every single registration, and pairs
	var sets [][]c20reg
	sets = append(sets, nil)
	for _, r := range regs {
		sets = append(sets, []c20reg{r})
	}
	for i, a := range regs {
		for j, b := range regs {
			if i == j {
				continue
			}
			// quick: pairs that can interfere (same kind); thorough: all ordered pairs
			if !thorough && a.kind != b.kind {
				continue
			}
			sets = append(sets, []c20reg{a, b})
		}
	}
	configs := []string{"native-off", "set+activate-before-create", "set+activate-after-create", "activate-before-set-after-create", "set-only-never-activated", "register-after-everything"}
	var evals int64
	var fired int64
	hist := map[string]int64{}
	var mu sync.Mutex
	type job struct {
		cl  c20client
		set []c20reg
		cfg string
		// pre is an earlier request issued on the same client before the judged one (a dispatch that
		// remembers what it resolved before - a cache - must still be exact)
		pre *c20reg
	}
	var seqEvals int64
	ch := make(chan job, 256)
	var wg sync.WaitGroup
	for w := 0; w < 16; w++ {
		wg.Add(1)
		go func() {
			defer wg.Done()
			for j := range ch {
				for _, req := range requests {
					ev.Breadcrumb(fmt.Sprintf("C20 %s cfg=%s set=%v request=%v", j.cl.name, j.cfg, j.set, req))
					// fresh client per request: requests mutate the item
					var log []int
					argsWrong := ""
					native := interpreter.NewNativeInterpreter()
					register := func() {
						for i, r := range j.set {
							i, r := i, r
							if r.kind == "update" {
								native.AddUpdater(r.table, r.text, func(item map[string]*itypes.Item, values map[string]*itypes.Item) {
									log = append(log, i)
									if _, ok := item["h"]; !ok {
										argsWrong = "the first argument of the updater is not the item"
									}
									if _, ok := values[":v"]; !ok {
										if _, ok := values[":w"]; !ok {
											argsWrong = "the second argument of the updater does not hold the expression attribute values"
										}
									}
									m := fmt.Sprintf("updater%d", i)
									item["marker"] = &itypes.Item{S: &m}
								})
							} else {
								verdict := c20Builtin(r) != "items=1" // the opposite of what the built-in interpreter answers
								native.AddMatcher(r.table, interpreter.ExpressionType(r.kind), r.text, func(item, values map[string]*itypes.Item) bool {
									log = append(log, i)
									// the callback is handed the item first and the expression attribute values second
									for k := range item {
										if strings.HasPrefix(k, ":") {
											argsWrong = "the first argument holds the value placeholder " + k
										}
									}
									if _, ok := values[":v"]; !ok {
										if _, ok := values[":w"]; !ok {
											argsWrong = fmt.Sprintf("the second argument does not hold the expression attribute values: %d entries", len(values))
										}
									}
									return verdict
								})
							}
						}
					}
					c := j.cl.newC()
					nativeActive := true
					switch j.cfg {
					case "native-off":
						register()
						nativeActive = false
					case "set+activate-before-create":
						register()
						j.cl.setI(c, native)
						j.cl.act(c)
					case "set-only-never-activated":
						register()
						j.cl.setI(c, native)
						nativeActive = false
					}
					for _, t := range tables {
						if err := j.cl.create(c, t); err != nil {
							run.Report("C20|setup-failed@"+j.cl.name, err.Error(), nil)
						}
					}
					switch j.cfg {
					case "set+activate-after-create":
						register()
						j.cl.setI(c, native)
						j.cl.act(c)
					case "activate-before-set-after-create":
						register()
						j.cl.act(c)
						j.cl.setI(c, native)
					case "register-after-everything":
						j.cl.setI(c, native)
						j.cl.act(c)
					}
					// items are written before any override can interfere with the write itself
					for _, t := range tables {
						if err := j.cl.put(c, t); err != nil {
							run.Report("C20|setup-put-failed@"+j.cl.name, err.Error(), nil)
						}
					}
					if j.cfg == "register-after-everything" {
						register()
					}
					cfgName := j.cfg
					if j.pre != nil && j.pre.via == "recreate-the-other-table" {
						// the OTHER table is deleted and created again: registrations of this one stay
						other := tables[0]
						if other == req.table {
							other = tables[1]
						}
						if err := j.cl.drop(c, other); err != nil {
							run.Report("C20|setup-drop-failed@"+j.cl.name, err.Error(), nil)
						}
						j.cl.create(c, other)
						j.cl.put(c, other)
						cfgName = j.cfg + "+after-the-other-table-was-deleted-and-created-again"
						atomic.AddInt64(&seqEvals, 1)
					} else if j.pre != nil {
						j.cl.request(c, *j.pre)
						// the earlier request may have changed or deleted the item: write it again
						for _, t := range tables {
							j.cl.put(c, t)
						}
						cfgName = j.cfg + "+after-" + j.pre.kind + "-request"
						atomic.AddInt64(&seqEvals, 1)
					}
					log = nil
					argsWrong = ""
					out, err := j.cl.request(c, req)
					if argsWrong != "" {
						run.Report(fmt.Sprintf("C20|callback-received-wrong-arguments|%s@%s", req.kind, j.cl.name), fmt.Sprintf("request %v: %s", req, argsWrong), map[string]interface{}{"client": j.cl.name, "config": j.cfg, "registrations": fmt.Sprint(j.set), "request": fmt.Sprint(req)})
					}
					marker := j.cl.marker(c, req.table)
					atomic.AddInt64(&evals, 1)
					// expectation
					want := -1
					if nativeActive {
						for i, r := range j.set {
							if r.table == req.table && r.kind == req.kind && normWS(r.text) == normWS(req.text) {
								want = i // the last matching registration wins
							}
						}
					}
					gotFired := -1
					if len(log) > 0 {
						gotFired = log[len(log)-1]
					}
					for _, i := range log {
						if i != gotFired {
							gotFired = -2 // several different callbacks fired
						}
					}
					if gotFired >= 0 {
						atomic.AddInt64(&fired, 1)
					}
					rel := "none"
					if gotFired >= 0 && want != gotFired {
						r := j.set[gotFired]
						switch {
						case r.table != req.table:
							rel = "other-table"
						case r.kind != req.kind:
							rel = "other-kind"
						case sortChars(r.text) == sortChars(req.text) || sortChars(strings.TrimSpace(r.text)) == sortChars(strings.TrimSpace(req.text)):
							rel = "same-characters-different-expression"
						default:
							rel = "different-expression"
						}
					}
					mu.Lock()
					hist[j.cfg]++
					mu.Unlock()
					rep := map[string]interface{}{"client": j.cl.name, "config": j.cfg, "registrations": fmt.Sprint(j.set), "request": fmt.Sprint(req)}
					if j.pre != nil {
						rep["earlier_request_on_the_same_client"] = fmt.Sprint(*j.pre)
					}
					if gotFired != want {
						switch {
						case want >= 0 && gotFired == -1:
							why := "exact-text"
							if j.set[want].text != req.text {
								why = "text-differs-in-whitespace-only"
							}
							run.Report(fmt.Sprintf("C20|registered-callback-not-invoked|%s|%s|%s@%s", req.kind, why, cfgName, j.cl.name), fmt.Sprintf("config %s, registrations %v, request %v: no callback fired (outcome %s, err %v)", j.cfg, j.set, req, out, err), rep)
						case gotFired >= 0:
							run.Report(fmt.Sprintf("C20|wrong-callback-invoked|%s|%s|%s@%s", req.kind, rel, cfgName, j.cl.name), fmt.Sprintf("config %s, registrations %v, request %v: callback #%d fired, expected #%d", j.cfg, j.set, req, gotFired, want), rep)
						default:
							run.Report(fmt.Sprintf("C20|several-callbacks-invoked|%s|%s@%s", req.kind, cfgName, j.cl.name), fmt.Sprintf("config %s, registrations %v, request %v: callbacks %v fired", j.cfg, j.set, req, log), rep)
						}
						continue
					}
					if j.pre != nil && j.pre.kind != "key" && j.pre.kind != "filter" {
						continue // the earlier request may have changed the item: only the dispatch is judged
					}
					// the verdict / mutation is what the operation uses; otherwise safe fall-back
					if req.kind == "update" {
						switch {
						case want >= 0:
							if err != nil || !strings.Contains(marker, fmt.Sprintf("marker=updater%d;", want)) {
								run.Report(fmt.Sprintf("C20|updater-mutation-not-used|%s@%s", cfgName, j.cl.name), fmt.Sprintf("request %v: err %v, item %s", req, err, marker), rep)
							}
						case nativeActive:
							// no registered updater: unsupported-feature error, item untouched
							if err == nil || !errors.Is(err, interpreter.ErrUnsupportedFeature) || marker != "a=1;b=1;" {
								run.Report(fmt.Sprintf("C20|update-without-updater|%s|%s@%s", errClassOf(err), cfgName, j.cl.name), fmt.Sprintf("request %v with the native interpreter active and no updater: err %v, item %s", req, err, marker), rep)
							}
						default:
							wantMarker, valid := c20BuiltinUpdate(req.text)
							if valid && (err != nil || marker != wantMarker) {
								run.Report(fmt.Sprintf("C20|builtin-update-not-used-when-native-off|%s@%s", cfgName, j.cl.name), fmt.Sprintf("request %v: err %v, item %s, want %s", req, err, marker, wantMarker), rep)
							}
						}
						continue
					}
					wantOut := c20Builtin(req)
					if strings.HasSuffix(req.via, "-absent") {
						wantOut = "items=0" // every text of the menu is false of an empty item
					}
					if want >= 0 {
						// the registered matcher answers the opposite of the built-in answer on the stored item
						if c20Builtin(j.set[want]) == "items=1" {
							wantOut = "items=0"
						} else {
							wantOut = "items=1"
						}
					}
					if err != nil || out != wantOut {
						which := "fallback-to-builtin"
						if want >= 0 {
							which = "matcher-verdict-not-used"
						}
						run.Report(fmt.Sprintf("C20|%s|%s|%s@%s", which, req.kind, cfgName, j.cl.name), fmt.Sprintf("request %v: outcome %s err %v, want %s", req, out, err, wantOut), rep)
					}
				}
			}
		}()
	}
	for _, cl := range []c20client{c20V2(), c20V1()} {
		for _, cfg := range configs {
			for _, s := range sets {
				ch <- job{cl, s, cfg, nil}
			}
		}
		// two requests on one client: every single registration x every earlier request x every request
		for _, s := range sets {
			if len(s) != 1 {
				continue
			}
			for pi := range requests {
				ch <- job{cl, s, "set+activate-after-create", &requests[pi]}
			}
			ch <- job{cl, s, "set+activate-after-create", &c20reg{via: "recreate-the-other-table", kind: "table-management"}}
		}
	}
	close(ch)
	wg.Wait()
	return map[string]interface{}{
		"evaluations":           evals,
		"two_request_histories": seqEvals,
		"distinct_nontrivial":   int64(len(sets))*int64(len(configs))*int64(len(requests)) + seqEvals/2,
		"registration_sets":     len(sets),
		"requests_per_set":      len(requests),
		"callbacks_fired":       fired,
		"rule":                  "(write conditions are requested through PutItem and DeleteItem, on a stored and on an absent key) every set of up to two registrations from 2 tables x {key, filter, conditional, update} x 5 expression texts (two equal up to whitespace, one a permutation of the characters of the first, two different), each with a callback that records its identity and answers the opposite of the built-in interpreter; for each set every request (table, kind, text) on a fresh client; six configurations (native interpreter off; SetInterpreter/Activate before or after CreateTable, in both orders; never activated; registrations added after everything); both SDK clients; a case is distinct by (configuration, registration set, request); in addition, for every single registration, every ordered pair of requests on ONE client (the second is judged: dispatch always, outcome when the first was a read)",
		"oracle":                "the callback that fires is the (last) one registered for exactly that table, kind and whitespace-normalised text and its verdict or mutation is what the operation uses; with no matching registration conditions fall back to the built-in result and updates fail with the unsupported-feature error leaving the item unchanged; nothing fires when the native interpreter is not active",
		"samples":               []interface{}{"registrations [{tb1 filter 'a = :v'}] request {tb1 filter ':v = a'}", "registrations [{tb1 update 'SET a = :v'}] request {tb1 update '  SET  a   =  :v '}"},
		"exhaustive":            true,
		"evaluations_by_config": hist,
	}
}

func sortChars(s string) string {
	b := []byte(s)
	for i := 1; i < len(b); i++ {
		for j := i; j > 0 && b[j] < b[j-1]; j-- {
			b[j], b[j-1] = b[j-1], b[j]
		}
	}
	return string(b)
}

func errClassOf(err error) string {
	switch {
	case err == nil:
		return "no-error"
	case errors.Is(err, interpreter.ErrUnsupportedFeature):
		return "unsupported-feature-but-item-changed"
	case errors.Is(err, interpreter.ErrSyntaxError):
		return "syntax-error"
	}
	return "other-error"
}
