package checks

import (
	_ "embed"
	"fmt"
	"sort"
	"strings"
	"sync"
	"sync/atomic"

	"verif/drv"
	"verif/ev"
	"verif/itp"
	"verif/rx"
	"verif/val"
)

func init() { Registry["C16"] = C16 }

//go:embed reserved_words.txt
var reservedWordsTxt string

func reservedWords() []string {
	var out []string
	for _, w := range strings.Fields(reservedWordsTxt) {
		out = append(out, w)
	}
	return out
}

type c16pos struct {
	name    string
	grammar string // cond | update
	tmpl    string // W is replaced by the word
}

var c16Positions = []c16pos{
	{"cmp-left", "cond", "W = :v"},
	{"cmp-right", "cond", ":v = W"},
	{"cmp-ne", "cond", "W <> :v"},
	{"cmp-lt", "cond", "W < :v"},
	{"attribute_exists", "cond", "attribute_exists(W)"},
	{"attribute_not_exists", "cond", "attribute_not_exists(W)"},
	{"attribute_type", "cond", "attribute_type(W, :t)"},
	{"begins_with", "cond", "begins_with(W, :v)"},
	{"contains", "cond", "contains(W, :v)"},
	{"size", "cond", "size(W) = :n"},
	{"between-subject", "cond", "W BETWEEN :v AND :v"},
	{"in-subject", "cond", "W IN (:v)"},
	{"in-member", "cond", "z IN (W)"},
	{"path-base-dot", "cond", "W.x = :v"},
	{"path-base-index", "cond", "W[0] = :v"},
	{"after-NOT", "cond", "NOT W = :v"},
	{"after-AND", "cond", "z = :v AND W = :v"},
	{"SET-target", "update", "SET W = :v"},
	{"SET-source", "update", "SET z = W"},
	{"SET-arithmetic", "update", "SET z = W + :n"},
	{"SET-if_not_exists", "update", "SET z = if_not_exists(W, :v)"},
	{"SET-list_append", "update", "SET z = list_append(W, :l)"},
	{"REMOVE", "update", "REMOVE W"},
	{"ADD", "update", "ADD W :n"},
	{"DELETE", "update", "DELETE W :ss"},
	{"SET-path-base", "update", "SET W.x = :v"},
	// positions that an evaluator could skip once the outcome is decided (z holds :v in the first item)
	{"in-member-after-match", "cond", "z IN (:v, W)"},
	{"in-member-before", "cond", "z IN (W, :v)"},
	{"OR-right-after-true", "cond", "z = :v OR W = :v"},
	{"AND-right-after-false", "cond", "z <> :v AND W = :v"},
	{"between-upper", "cond", "z BETWEEN :v AND W"},
	{"between-lower", "cond", "z BETWEEN W AND :v"},
	{"begins_with-operand", "cond", "begins_with(z, W)"},
	{"contains-operand", "cond", "contains(z, W)"},
	{"size-right", "cond", ":n = size(W)"},
	{"SET-second-action", "update", "SET z = :v, W = :v"},
	{"REMOVE-second", "update", "REMOVE z, W"},
	{"if_not_exists-default", "update", "SET z = if_not_exists(z, W)"},
	{"SET-after-REMOVE", "update", "REMOVE z SET y = W"},
}

var c16AllValues = map[string]val.V{":v": val.S("v"), ":t": val.S("S"), ":n": val.N("1"), ":l": val.L(val.S("e")), ":ss": val.SS("e")}

func usedValues(expr string) map[string]val.V {
	o := map[string]val.V{}
	toks := strings.FieldsFunc(expr, func(r rune) bool {
		return !(r == ':' || r == '_' || r >= 'a' && r <= 'z' || r >= 'A' && r <= 'Z' || r >= '0' && r <= '9')
	})
	for _, t := range toks {
		if v, ok := c16AllValues[t]; ok {
			o[t] = v
		}
	}
	return o
}

func caseVariants(w string) []string {
	lower := strings.ToLower(w)
	mixed := strings.ToUpper(lower[:1]) + lower[1:]
	vs := []string{w, lower}
	if mixed != w && mixed != lower {
		vs = append(vs, mixed)
	}
	// capitals inside the word (camelCase spellings): the last letter, and every second letter
	if len(lower) > 1 {
		inner := lower[:len(lower)-1] + strings.ToUpper(lower[len(lower)-1:])
		alt := []byte(lower)
		for i := 1; i < len(alt); i += 2 {
			alt[i] = strings.ToUpper(string(alt[i]))[0]
		}
		for _, v := range []string{inner, string(alt)} {
			dup := false
			for _, x := range vs {
				dup = dup || x == v
			}
			if !dup {
				vs = append(vs, v)
			}
		}
	}
	return vs
}

// C16: DynamoDB usage restrictions are detected.
func C16(run *ev.Run, tier string) map[string]interface{} {
	thorough := tier == "thorough"
	var evals int64
	var mu sync.Mutex
	hist := map[string]int{}
	count := func(k string) {
		atomic.AddInt64(&evals, 1)
		mu.Lock()
		hist[k]++
		mu.Unlock()
	}
	var jobs []func()
	add := func(f func()) { jobs = append(jobs, f) }
	words := reservedWords()

	// R1: reserved words as bare names, every word x letter case x position (interpreter level)
	keywordLike := map[string]bool{"AND": true, "OR": true, "NOT": true, "IN": true, "BETWEEN": true, "SET": true, "ADD": true, "REMOVE": true, "DELETE": true}
	for _, w := range words {
		for _, variant := range caseVariants(w) {
			for _, pos := range c16Positions {
				w, variant, pos := w, variant, pos
				add(func() {
					expr := strings.ReplaceAll(pos.tmpl, "W", variant)
					item := val.Item{variant: val.S("v"), "z": val.S("v")}
					if strings.Contains(pos.name, "path-base") {
						item[variant] = val.M("x", val.S("v"))
					}
					if pos.name == "path-base-index" || pos.name == "SET-list_append" {
						item[variant] = val.L(val.S("v"))
					}
					if pos.name == "ADD" || pos.name == "SET-arithmetic" {
						item[variant] = val.N("1")
					}
					if pos.name == "DELETE" {
						item[variant] = val.SS("e", "f")
					}
					// the rule does not depend on the item: the same expression against the item that
					// holds the attributes and against an item that holds none of them
					for _, it := range []val.Item{item, {"unrelated": val.S("v")}} {
						var out itp.Outcome
						if pos.grammar == "cond" {
							out, _ = itp.Match(expr, it, nil, usedValues(expr))
						} else {
							out, _ = itp.Update(expr, it, nil, usedValues(expr))
						}
						count("reserved-word")
						if out.O != "E" {
							cs := "upper"
							if variant != w {
								cs = "other-case"
							}
							kw := ""
							if keywordLike[w] {
								kw = "|expression-keyword"
							}
							run.Report(fmt.Sprintf("C16|reserved-word-accepted|%s|%s%s", pos.name, cs, kw), fmt.Sprintf("%q (reserved word %s as a bare name) on item %s evaluated to %s %s", expr, w, it.CanonText(), out.O, out.Msg), map[string]interface{}{"expression": expr, "word": w, "item": it})
						}
					}
				})
			}
		}
	}
	// R5 for R1: benign names (prefixes, extensions, reserved words behind an alias) are accepted
	benign := []string{"nam", "namez", "sizes", "datas", "a_and", "orr", "notx", "inn", "sett", "zadd", "ke", "statu", "status_", "x_name", "user_id", "tim", "timestamp_", "valuex", "zz", "myorder"}
	for _, b := range benign {
		for _, pos := range c16Positions {
			b, pos := b, pos
			add(func() {
				expr := strings.ReplaceAll(pos.tmpl, "W", b)
				item := val.Item{b: val.S("v"), "z": val.S("v")}
				var out itp.Outcome
				if pos.grammar == "cond" {
					out, _ = itp.Match(expr, item, nil, usedValues(expr))
				} else {
					out, _ = itp.Update(expr, item, nil, usedValues(expr))
				}
				count("benign-name")
				if out.O == "E" && strings.Contains(strings.ToLower(out.Msg), "reserved") {
					run.Report(fmt.Sprintf("C16|benign-name-rejected-as-reserved|%s", pos.name), fmt.Sprintf("%q: %s", expr, out.Msg), map[string]interface{}{"expression": expr})
				}
			})
		}
	}
	aliasWords := words
	if !thorough {
		aliasWords = nil
		for i, w := range words {
			if i%7 == 0 {
				aliasWords = append(aliasWords, w)
			}
		}
	}
	for _, w := range aliasWords {
		w := w
		add(func() {
			for _, pos := range c16Positions {
				expr := strings.ReplaceAll(pos.tmpl, "W", "#w")
				item := val.Item{w: val.S("v"), "z": val.S("v")}
				names := map[string]string{"#w": w}
				var out itp.Outcome
				if pos.grammar == "cond" {
					out, _ = itp.Match(expr, item, names, usedValues(expr))
				} else {
					out, _ = itp.Update(expr, item, names, usedValues(expr))
				}
				count("aliased-reserved-word")
				if out.O == "E" && strings.Contains(strings.ToLower(out.Msg), "reserved") {
					run.Report(fmt.Sprintf("C16|aliased-reserved-word-rejected|%s", pos.name), fmt.Sprintf("%q with #w=%s: %s", expr, w, out.Msg), map[string]interface{}{"expression": expr, "word": w})
				}
			}
		})
	}

	// R2: supplied vs used placeholders, through the client API
	nameSet := []string{"#a", "#ab", "#b"}
	valueSet := []string{":a", ":ab", ":b"}
	subsets := func(xs []string) [][]string {
		var out [][]string
		for m := 0; m < 1<<len(xs); m++ {
			var s []string
			for i, x := range xs {
				if m&(1<<i) != 0 {
					s = append(s, x)
				}
			}
			out = append(out, s)
		}
		return out
	}
	opKinds := []string{"Scan-filter", "PutItem-condition", "DeleteItem-condition", "UpdateItem-update", "UpdateItem-condition", "Query-filter"}
	if !thorough {
		opKinds = []string{"Scan-filter", "PutItem-condition", "UpdateItem-update"}
	}
	// requests that carry placeholders but no expression at all: every supplied placeholder is unused
	opKinds = append(opKinds, "Scan-none", "PutItem-none", "DeleteItem-none")
	for _, d := range Drivers {
		for _, kind := range opKinds {
			for _, usedN := range subsets(nameSet) {
				for _, usedV := range subsets(valueSet) {
					for _, supN := range subsets(nameSet) {
						for _, supV := range subsets(valueSet) {
							d, kind, usedN, usedV, supN, supV := d, kind, usedN, usedV, supN, supV
							if strings.HasSuffix(kind, "-none") && len(usedN)+len(usedV) > 0 {
								continue
							}
							add(func() {
								var parts []string
								for _, n := range usedN {
									parts = append(parts, "attribute_exists("+n+")")
								}
								for _, v := range usedV {
									parts = append(parts, "z = "+v)
								}
								if len(parts) == 0 {
									parts = []string{"attribute_exists(z)"}
								}
								cond := strings.Join(parts, " AND ")
								names := map[string]string{}
								for _, n := range supN {
									names[n] = "attr" + n[1:]
								}
								values := map[string]val.V{}
								for _, v := range supV {
									values[v] = val.S("x")
								}
								if len(names) == 0 {
									names = nil
								}
								if len(values) == 0 {
									values = nil
								}
								impl := d.New()
								impl.Do(drv.Op{K: drv.KCreate, Table: "tab", Cfg: &drv.TableCfg{Hash: "h", HashT: "S", Billing: "PAY_PER_REQUEST"}})
								impl.Do(drv.Op{K: drv.KPut, Table: "tab", Item: val.Item{"h": val.S("k"), "z": val.S("x"), "attra": val.S("1"), "attrab": val.S("1"), "attrb": val.S("1")}})
								var r drv.Resp
								switch kind {
								case "Scan-filter":
									r = impl.Do(drv.Op{K: drv.KScan, Table: "tab", FiltStr: &cond, Names: names, Values: values})
								case "Query-filter":
									kc := "h = :hk"
									vs := mergeVals(values, map[string]val.V{":hk": val.S("k")})
									r = impl.Do(drv.Op{K: drv.KQuery, Table: "tab", KeyStr: &kc, FiltStr: &cond, Names: names, Values: vs})
								case "Scan-none":
									r = impl.Do(drv.Op{K: drv.KScan, Table: "tab", Names: names, Values: values})
								case "PutItem-none":
									r = impl.Do(drv.Op{K: drv.KPut, Table: "tab", Item: val.Item{"h": val.S("k"), "z": val.S("x")}, Names: names, Values: values})
								case "DeleteItem-none":
									r = impl.Do(drv.Op{K: drv.KDel, Table: "tab", Key: val.Item{"h": val.S("k")}, Names: names, Values: values})
								case "PutItem-condition":
									r = impl.Do(drv.Op{K: drv.KPut, Table: "tab", Item: val.Item{"h": val.S("k"), "z": val.S("x")}, CondStr: &cond, Names: names, Values: values})
								case "DeleteItem-condition":
									r = impl.Do(drv.Op{K: drv.KDel, Table: "tab", Key: val.Item{"h": val.S("k")}, CondStr: &cond, Names: names, Values: values})
								case "UpdateItem-condition":
									u := "SET y = :hk"
									vs := mergeVals(values, map[string]val.V{":hk": val.S("k")})
									r = impl.Do(drv.Op{K: drv.KUpd, Table: "tab", Key: val.Item{"h": val.S("k")}, UpdStr: &u, CondStr: &cond, Names: names, Values: vs})
								case "UpdateItem-update":
									var as []string
									for i, n := range usedN {
										as = append(as, fmt.Sprintf("%s = z", n))
										_ = i
									}
									for i, v := range usedV {
										as = append(as, fmt.Sprintf("y%d = %s", i, v))
									}
									if len(as) == 0 {
										as = []string{"y = z"}
									}
									u := "SET " + strings.Join(as, ", ")
									r = impl.Do(drv.Op{K: drv.KUpd, Table: "tab", Key: val.Item{"h": val.S("k")}, UpdStr: &u, Names: names, Values: values})
								}
								count("placeholders")
								wantReject := strings.Join(usedN, ",") != strings.Join(supN, ",") || strings.Join(usedV, ",") != strings.Join(supV, ",")
								rejected := r.Err != "" && r.Err != drv.EPanicRT && r.Err != drv.ECCF
								if r.Err == drv.EPanicRT {
									run.Report(fmt.Sprintf("C16|placeholders|%s|runtime-panic@%s", kind, d.Name), fmt.Sprintf("%s used names %v values %v supplied names %v values %v: %s", kind, usedN, usedV, supN, supV, r.Msg), nil)
									return
								}
								if wantReject && !rejected {
									why := placeholderWhy(usedN, usedV, supN, supV)
									run.Report(fmt.Sprintf("C16|placeholders|%s|accepted@%s", why, d.Name), fmt.Sprintf("%s: expression uses names %v values %v, supplied names %v values %v: accepted (%s)", kind, usedN, usedV, supN, supV, orOK2(r.Err)),
										map[string]interface{}{"driver": d.Name, "kind": kind, "used_names": usedN, "used_values": usedV, "supplied_names": supN, "supplied_values": supV})
								}
								if !wantReject && rejected {
									run.Report(fmt.Sprintf("C16|placeholders|%s|rule-respecting-request-rejected@%s", kind, d.Name), fmt.Sprintf("%s: used = supplied = names %v values %v: %s %s", kind, usedN, usedV, r.Err, r.Msg),
										map[string]interface{}{"driver": d.Name, "kind": kind, "used_names": usedN, "used_values": usedV})
								}
							})
						}
					}
				}
			}
		}
		// malformed placeholder keys
		for _, bad := range []struct {
			kind, key string
		}{{"name", "a"}, {"name", "#"}, {"name", "#a-b"}, {"name", "# a"}, {"name", ""}, {"value", "a"}, {"value", ":"}, {"value", ":a-b"}, {"value", ": a"}, {"value", "#a"}} {
			d, bad := d, bad
			add(func() {
				impl := d.New()
				impl.Do(drv.Op{K: drv.KCreate, Table: "tab", Cfg: &drv.TableCfg{Hash: "h", HashT: "S", Billing: "PAY_PER_REQUEST"}})
				cond := "attribute_exists(" + bad.key + ")"
				if bad.key == "" || strings.Contains(bad.key, " ") {
					cond = "attribute_exists(z)"
				}
				op := drv.Op{K: drv.KScan, Table: "tab", FiltStr: &cond}
				if bad.kind == "name" {
					op.Names = map[string]string{bad.key: "z"}
				} else {
					cond = "z = " + bad.key
					if bad.key == ":" || strings.Contains(bad.key, " ") || bad.key == "a" {
						cond = "attribute_exists(z)"
					}
					op.Values = map[string]val.V{bad.key: val.S("x")}
				}
				r := impl.Do(op)
				count("malformed-placeholder-key")
				if r.Err == "" {
					run.Report(fmt.Sprintf("C16|malformed-placeholder-key-accepted|%s|%q@%s", bad.kind, bad.key, d.Name), fmt.Sprintf("Scan with %s placeholder key %q and filter %q succeeded", bad.kind, bad.key, cond), nil)
				}
			})
		}
		// malformed placeholder keys that the expression lexer never sees: supplied next to a well-formed
		// placeholder the expression really uses, or used only in a projection expression (which the
		// library does not parse). A well-formed counterpart of each shape must pass.
		for _, bad := range []struct {
			kind, key string
			malformed bool
		}{
			{"name", "#", true}, {"name", "#a-b", true}, {"name", "#a.b", true}, {"name", "#a b", true}, {"name", "#a\u00f1o", true}, {"name", "#\u0663", true}, {"name", "#a\u00b2", true}, {"name", "##a", true}, {"name", "#a#", true},
			{"name", "#a_1", false}, {"name", "#A9", false}, {"name", "#_", false},
			{"value", ":", true}, {"value", ":a-b", true}, {"value", ":a\u00f1o", true}, {"value", ":\u0663", true}, {"value", "::a", true},
			{"value", ":a_1", false}, {"value", ":_", false},
		} {
			d, bad := d, bad
			for _, via := range []string{"next-to-used", "projection-only"} {
				via := via
				if bad.kind == "value" && via == "projection-only" {
					continue
				}
				add(func() {
					impl := d.New()
					impl.Do(drv.Op{K: drv.KCreate, Table: "tab", Cfg: &drv.TableCfg{Hash: "h", HashT: "S", Billing: "PAY_PER_REQUEST"}})
					var op drv.Op
					switch {
					case bad.kind == "name" && via == "projection-only":
						proj := bad.key
						op = drv.Op{K: drv.KScan, Table: "tab", ProjStr: &proj, Names: map[string]string{bad.key: "z"}}
					case bad.kind == "name":
						// the projection mentions both, so that neither counts as unused
						cond, proj := "attribute_exists(#ok)", "#ok, "+bad.key
						op = drv.Op{K: drv.KScan, Table: "tab", FiltStr: &cond, ProjStr: &proj, Names: map[string]string{"#ok": "z", bad.key: "y"}}
					default:
						// (the unused-value rule reads the projection text too: the recorded substring finding)
						cond, proj := "z = :ok", bad.key
						op = drv.Op{K: drv.KScan, Table: "tab", FiltStr: &cond, ProjStr: &proj, Values: map[string]val.V{":ok": val.S("x"), bad.key: val.S("y")}}
					}
					r := impl.Do(op)
					count("malformed-placeholder-key")
					switch {
					case bad.malformed && r.Err == "":
						run.Report(fmt.Sprintf("C16|malformed-placeholder-key-accepted|%s|%q|%s@%s", bad.kind, bad.key, via, d.Name), fmt.Sprintf("Scan %s succeeded although the %s placeholder key %q is malformed", op.String(), bad.kind, bad.key), nil)
					case !bad.malformed && r.Err != "":
						run.Report(fmt.Sprintf("C16|well-formed-placeholder-key-rejected|%s|%q|%s@%s", bad.kind, bad.key, via, d.Name), fmt.Sprintf("Scan %s failed (%s %s) although the %s placeholder key %q is well-formed and used", op.String(), r.Err, r.Msg, bad.kind, bad.key), nil)
					}
				})
			}
		}
		// R3: key-condition shapes, base table and index
		type shape struct {
			name string
			c    *rx.Cond
			ok   bool
		}
		mkShapes := func(h, r string) []shape {
			hv, rv := rx.OpV(":h"), rx.OpV(":r")
			heq := rx.Cmp("=", rx.OpP(h), hv)
			ss := []shape{
				{"hash-equality", heq, true},
				{"hash=AND-sort=", rx.And(heq, rx.Cmp("=", rx.OpP(r), rv)), true},
				{"hash=AND-sort<", rx.And(heq, rx.Cmp("<", rx.OpP(r), rv)), true},
				{"hash=AND-sort<=", rx.And(heq, rx.Cmp("<=", rx.OpP(r), rv)), true},
				{"hash=AND-sort>", rx.And(heq, rx.Cmp(">", rx.OpP(r), rv)), true},
				{"hash=AND-sort>=", rx.And(heq, rx.Cmp(">=", rx.OpP(r), rv)), true},
				{"hash=AND-sort-BETWEEN", rx.And(heq, rx.Between(rx.OpP(r), rv, rx.OpV(":r2"))), true},
				{"hash=AND-begins_with(sort)", rx.And(heq, rx.BeginsWith(r, ":r")), true},
				{"sort=AND-hash=", rx.And(rx.Cmp("=", rx.OpP(r), rv), heq), true},
				{"sort-only", rx.Cmp("=", rx.OpP(r), rv), false},
				{"hash-inequality", rx.Cmp("<", rx.OpP(h), hv), false},
				{"hash-begins_with", rx.BeginsWith(h, ":h"), false},
				{"hash=OR-sort=", rx.Or(heq, rx.Cmp("=", rx.OpP(r), rv)), false},
				{"NOT-hash=", rx.Not(heq), false},
				{"hash=AND-non-key-attribute", rx.And(heq, rx.Cmp("=", rx.OpP("a"), rv)), false},
				{"hash=AND-two-sort-conditions", rx.And(rx.And(heq, rx.Cmp(">", rx.OpP(r), rv)), rx.Cmp("<", rx.OpP(r), rx.OpV(":r2"))), false},
				{"hash-twice", rx.And(heq, rx.Cmp("=", rx.OpP(h), rx.OpV(":r"))), false},
				{"hash=AND-sort<>", rx.And(heq, rx.Cmp("<>", rx.OpP(r), rv)), false},
				{"hash=AND-contains(sort)", rx.And(heq, rx.Fn("contains", rx.OpP(r), rv)), false},
				{"hash=AND-attribute_exists(sort)", rx.And(heq, rx.Exists(r)), false},
				{"non-key-attribute-only", rx.Cmp("=", rx.OpP("a"), rv), false},
			}
			return ss
		}
		for _, target := range []struct{ index, h, r string }{{"", "h", "r"}, {"gsi", "g", "s"}} {
			for _, sh := range mkShapes(target.h, target.r) {
				d, target, sh := d, target, sh
				add(func() {
					impl := d.New()
					cfg := drv.TableCfg{Hash: "h", HashT: "S", Range: "r", RangeT: "S", Billing: "PAY_PER_REQUEST", GSI: []drv.IndexCfg{{Name: "gsi", Hash: "g", HashT: "S", Range: "s", RangeT: "S"}}}
					impl.Do(drv.Op{K: drv.KCreate, Table: "tab", Cfg: &cfg})
					impl.Do(drv.Op{K: drv.KPut, Table: "tab", Item: val.Item{"h": val.S("p"), "r": val.S("1"), "g": val.S("p"), "s": val.S("1"), "a": val.S("1")}})
					impl.Do(drv.Op{K: drv.KPut, Table: "tab", Item: val.Item{"h": val.S("p"), "r": val.S("2"), "g": val.S("p"), "s": val.S("2"), "a": val.S("1")}})
					ns, vs := map[string]bool{}, map[string]bool{}
					sh.c.Placeholders(ns, vs)
					values := map[string]val.V{}
					for v := range vs {
						values[v] = map[string]val.V{":h": val.S("p"), ":r": val.S("1"), ":r2": val.S("2")}[v]
					}
					r := impl.Do(drv.Op{K: drv.KQuery, Table: "tab", Index: target.index, KeyCond: sh.c, Values: values})
					count("key-condition-shape")
					where := "base"
					if target.index != "" {
						where = "index"
					}
					rejected := r.Err != "" && r.Err != drv.EPanicRT
					switch {
					case r.Err == drv.EPanicRT:
						run.Report(fmt.Sprintf("C16|key-condition|%s|%s|runtime-panic@%s", where, sh.name, d.Name), fmt.Sprintf("Query %q: %s", sh.c.String(), r.Msg), nil)
					case !sh.ok && !rejected:
						run.Report(fmt.Sprintf("C16|key-condition|%s|invalid-shape-executed@%s", where, d.Name), fmt.Sprintf("Query with key condition %q was executed (%d items)", sh.c.String(), len(r.Items)), map[string]interface{}{"driver": d.Name, "index": target.index, "key_condition": sh.c.String()})
					case sh.ok && rejected:
						run.Report(fmt.Sprintf("C16|key-condition|%s|%s|valid-shape-rejected@%s", where, sh.name, d.Name), fmt.Sprintf("Query with key condition %q: %s %s", sh.c.String(), r.Err, r.Msg), map[string]interface{}{"driver": d.Name, "index": target.index, "key_condition": sh.c.String()})
					}
				})
			}
		}
		add(func() {
			impl := d.New()
			impl.Do(drv.Op{K: drv.KCreate, Table: "tab", Cfg: &drv.TableCfg{Hash: "h", HashT: "S", Billing: "PAY_PER_REQUEST"}})
			r := impl.Do(drv.Op{K: drv.KQuery, Table: "tab"})
			count("key-condition-shape")
			if r.Err == "" {
				run.Report(fmt.Sprintf("C16|key-condition|base|invalid-shape-executed@%s", d.Name), "Query without any key condition was executed", nil)
			} else if r.Err == drv.EPanicRT {
				run.Report(fmt.Sprintf("C16|key-condition|base|no-key-condition|runtime-panic@%s", d.Name), r.Msg, nil)
			}
		})
		// R4: batch sizes 1..27 over 1..3 tables, and malformed write requests
		for n := 1; n <= 27; n++ {
			for tables := 1; tables <= 3; tables++ {
				d, n, tables := d, n, tables
				add(func() {
					impl := d.New()
					cfg := drv.TableCfg{Hash: "h", HashT: "S", Billing: "PAY_PER_REQUEST"}
					for t := 0; t < 3; t++ {
						impl.Do(drv.Op{K: drv.KCreate, Table: fmt.Sprintf("tb%d", t), Cfg: &cfg})
					}
					var batch []drv.BWReq
					for i := 0; i < n; i++ {
						req := drv.BWReq{Table: fmt.Sprintf("tb%d", i%tables)}
						if i%3 == 2 {
							req.Del = val.Item{"h": val.S(fmt.Sprintf("k%02d", i))}
						} else {
							req.Put = val.Item{"h": val.S(fmt.Sprintf("k%02d", i)), "a": val.N("1")}
						}
						batch = append(batch, req)
					}
					r := impl.Do(drv.Op{K: drv.KBatchWrite, Batch: batch})
					count("batch-size")
					if n > 25 && r.Err == "" {
						run.Report(fmt.Sprintf("C16|batch|oversized-batch-accepted|%d@%s", n, d.Name), fmt.Sprintf("BatchWriteItem with %d requests over %d tables succeeded", n, tables), nil)
					}
					if n <= 25 && r.Err != "" {
						run.Report(fmt.Sprintf("C16|batch|valid-batch-rejected|%s@%s", r.Err, d.Name), fmt.Sprintf("BatchWriteItem with %d requests over %d tables: %s %s", n, tables, r.Err, r.Msg), nil)
					}
				})
			}
		}
		for _, mal := range []string{"both", "neither"} {
			for _, at := range []int{0, 1} {
				d, mal, at := d, mal, at
				add(func() {
					impl := d.New()
					impl.Do(drv.Op{K: drv.KCreate, Table: "tab", Cfg: &drv.TableCfg{Hash: "h", HashT: "S", Billing: "PAY_PER_REQUEST"}})
					good := drv.BWReq{Table: "tab", Put: val.Item{"h": val.S("k1")}}
					bad := drv.BWReq{Table: "tab", None: true}
					if mal == "both" {
						bad = drv.BWReq{Table: "tab", Put: val.Item{"h": val.S("k2")}, Del: val.Item{"h": val.S("k2")}, Both: true}
					}
					batch := []drv.BWReq{good, bad}
					if at == 0 {
						batch = []drv.BWReq{bad, good}
					}
					r := impl.Do(drv.Op{K: drv.KBatchWrite, Batch: batch})
					count("write-request-shape")
					if r.Err == "" {
						run.Report(fmt.Sprintf("C16|batch|write-request-%s-put-and-delete-accepted@%s", mal, d.Name), "BatchWriteItem accepted a write request that is "+mal+" put and delete", nil)
					}
				})
			}
		}
	}
	ch := make(chan func(), 4096)
	var wg sync.WaitGroup
	for w := 0; w < 16; w++ {
		wg.Add(1)
		go func() {
			defer wg.Done()
			n := 0
			for f := range ch {
				n++
				if n%256 == 0 {
					ev.Progress()
				}
				f()
			}
		}()
	}
	for _, j := range jobs {
		ch <- j
	}
	close(ch)
	wg.Wait()
	ks := make([]string, 0, len(hist))
	for k := range hist {
		ks = append(ks, k)
	}
	sort.Strings(ks)
	return map[string]interface{}{
		"evaluations":         evals,
		"distinct_nontrivial": len(jobs),
		"reserved_words":      len(words),
		"rule":                fmt.Sprintf("%d reserved words (pinned copy of the pinned commit's table) x letter case {UPPER, lower, Capitalised, last letter capital, every second letter capital} x %d bare-name positions of both grammars, %d benign names and aliased reserved words that must pass; every subset of supplied vs used placeholders over {#a,#ab,#b} x {:a,:ab,:b} (names that are prefixes of one another) through %d client entry points, malformed placeholder keys; 21 key-condition shapes on base table and index plus the missing key condition; BatchWriteItem sizes 1..27 over 1..3 tables and write requests that are both/neither put and delete; both SDK clients", len(words), len(c16Positions), len(benign), len(opKinds)),
		"oracle":              "the rule table of the property statement; rule-respecting requests must not be rejected for these reasons",
		"samples":             []interface{}{"attribute_exists(Name)", "SET z = if_not_exists(STATUS, :v)", "filter uses {#ab,:ab}, supplied {#a,#ab,:ab}", "Query key condition: h = :h OR r = :r", "BatchWriteItem 26 requests over 3 tables"},
		"exhaustive":          true,
		"evaluations_by_rule": hist,
	}
}

func placeholderWhy(usedN, usedV, supN, supV []string) string {
	in := func(x string, xs []string) bool {
		for _, y := range xs {
			if x == y {
				return true
			}
		}
		return false
	}
	var why []string
	for _, n := range supN {
		if !in(n, usedN) {
			pre := false
			for _, u := range usedN {
				if strings.HasPrefix(u, n) {
					pre = true
				}
			}
			if pre {
				why = append(why, "unused-name-that-is-prefix-of-a-used-one")
			} else {
				why = append(why, "unused-name")
			}
		}
	}
	for _, n := range supV {
		if !in(n, usedV) {
			pre := false
			for _, u := range usedV {
				if strings.HasPrefix(u, n) {
					pre = true
				}
			}
			if pre {
				why = append(why, "unused-value-that-is-prefix-of-a-used-one")
			} else {
				why = append(why, "unused-value")
			}
		}
	}
	for _, n := range usedN {
		if !in(n, supN) {
			why = append(why, "undefined-name")
		}
	}
	for _, n := range usedV {
		if !in(n, supV) {
			why = append(why, "undefined-value")
		}
	}
	sort.Strings(why)
	o := why[:0]
	for i, w := range why {
		if i == 0 || w != why[i-1] {
			o = append(o, w)
		}
	}
	return strings.Join(o, "+")
}

func orOK2(s string) string {
	if s == "" {
		return "success"
	}
	return s
}
