package checks

import (
	"fmt"
	"sort"
	"strconv"
	"strings"
	"sync"

	"verif/drv"
	"verif/ev"
	"verif/itp"
	"verif/rx"
	"verif/val"
)

func init() { Registry["C12"] = C12 }

var c12Numerals = []string{
	"0", "-0", "0.0", "1", "1.0", "01", "1e0", "10", "010", "9", "2", "100", "0100", "1e2", "1E2", "1.50E+1", "15",
	// amounts whose decimal scaling in binary lands just below an integer, and a large whole part next to a fraction
	"19.99", "0.01", "4.35", "0.15", "1000000000000000", "0.5",
	"0.1", "0.2", "0.3", "0.30000000000000004",
	"1e-130", "9.9999999999999999999999999999999999999e125",
	"9007199254740992", "9007199254740993",
	"12345678901234567890123456789012345678", "12345678901234567890123456789012345679",
	"-1", "-1.50",
}

func f64(s string) float64 {
	f, _ := strconv.ParseFloat(s, 64)
	return f
}

func cmpHolds(op string, c int) bool {
	switch op {
	case "=":
		return c == 0
	case "<>":
		return c != 0
	case "<":
		return c < 0
	case "<=":
		return c <= 0
	case ">":
		return c > 0
	case ">=":
		return c >= 0
	}
	return false
}

func fcmp(a, b float64) int {
	switch {
	case a < b:
		return -1
	case a > b:
		return 1
	}
	return 0
}

func tf(b bool) string {
	if b {
		return "T"
	}
	return "F"
}

// C12: numbers behave as exact decimals, not floats or strings.
func C12(run *ev.Run, tier string) map[string]interface{} {
	thorough := tier == "thorough"
	nums := c12Numerals
	if thorough {
		nums = append(append([]string{}, nums...), "0.7", "0.10", "1E2", "-0.0", "123456789012345678", "123456789012345679", "5e-1", ".5", "-010", "012", "08", "1e125", "99999999999999999999999999999999999999", "-9007199254740993", "3")
	}
	var evals int64
	var mu sync.Mutex
	hist := map[string]int{}
	count := func(k string) {
		mu.Lock()
		evals++
		hist[k]++
		mu.Unlock()
	}
	var jobs []func()
	add := func(f func()) { jobs = append(jobs, f) }

	// 1. comparators, BETWEEN, IN, contains on number sets
	for _, x := range nums {
		for _, y := range nums {
			x, y := x, y
			add(func() {
				dx, dy := val.MustDec(x), val.MustDec(y)
				exact := dx.Cmp(dy)
				fl := fcmp(f64(x), f64(y))
				for _, op := range cmpOps {
					expr := "a " + op + " :n"
					ev.Breadcrumb(fmt.Sprintf("%s a=%s :n=%s", expr, x, y))
					out, _ := itp.Match(expr, val.Item{"a": val.N(x)}, nil, map[string]val.V{":n": val.N(y)})
					count("cmp")
					want := tf(cmpHolds(op, exact))
					if out.O != want {
						explained := out.O == tf(cmpHolds(op, fl))
						run.Report(fmt.Sprintf("C12|cmp|explained-by-float64=%v", explained), fmt.Sprintf("%s with a=%s :n=%s: want %s got %s %s", expr, x, y, want, out.O, out.Msg),
							map[string]interface{}{"expression": expr, "a": x, "n": y})
					}
				}
				// IN and set membership with a differently written member
				for _, c := range []struct {
					name, expr string
					values     map[string]val.V
				}{
					{"in", "a IN (:m, :n)", map[string]val.V{":m": val.N("555"), ":n": val.N(y)}},
					{"contains", "contains(s, :n)", map[string]val.V{":n": val.N(y)}},
				} {
					item := val.Item{"a": val.N(x), "s": val.NS(x, "777")}
					out, _ := itp.Match(c.expr, item, nil, c.values)
					count(c.name)
					want := tf(exact == 0)
					if out.O != want {
						explained := out.O == tf(fl == 0)
						run.Report(fmt.Sprintf("C12|%s|explained-by-float64=%v", c.name, explained), fmt.Sprintf("%s with a=%s :n=%s: want %s got %s %s", c.expr, x, y, want, out.O, out.Msg),
							map[string]interface{}{"expression": c.expr, "a": x, "n": y})
					}
				}
			})
		}
	}
	// BETWEEN triples over a subset
	bt := nums
	if !thorough {
		bt = []string{"0", "1", "1.0", "10", "9", "0.1", "0.3", "0.30000000000000004", "9007199254740992", "9007199254740993", "12345678901234567890123456789012345678", "12345678901234567890123456789012345679", "-1"}
	}
	for _, x := range bt {
		for _, lo := range bt {
			for _, hi := range bt {
				x, lo, hi := x, lo, hi
				add(func() {
					expr := "a BETWEEN :lo AND :hi"
					out, _ := itp.Match(expr, val.Item{"a": val.N(x)}, nil, map[string]val.V{":lo": val.N(lo), ":hi": val.N(hi)})
					count("between")
					dx, dl, dh := val.MustDec(x), val.MustDec(lo), val.MustDec(hi)
					want := tf(dl.Cmp(dx) <= 0 && dx.Cmp(dh) <= 0)
					if out.O != want {
						explained := out.O == tf(f64(lo) <= f64(x) && f64(x) <= f64(hi))
						run.Report(fmt.Sprintf("C12|between|explained-by-float64=%v", explained), fmt.Sprintf("%s with a=%s lo=%s hi=%s: want %s got %s", expr, x, lo, hi, want, out.O),
							map[string]interface{}{"expression": expr, "a": x, "lo": lo, "hi": hi})
					}
				})
			}
		}
	}
	// 2. arithmetic: SET a = a + :n, a - :n, ADD a :n, and number sets
	for _, x := range nums {
		for _, y := range nums {
			x, y := x, y
			add(func() {
				dx, dy := val.MustDec(x), val.MustDec(y)
				for _, c := range []struct {
					name, expr string
					exact      val.Dec
					fl         float64
				}{
					{"SET+", "SET a = a + :n", dx.Add(dy), f64(x) + f64(y)},
					{"SET-", "SET a = a - :n", dx.Sub(dy), f64(x) - f64(y)},
					{"ADD", "ADD a :n", dx.Add(dy), f64(x) + f64(y)},
					// a second clause copies the number the first one adds to: the copy is the pre-update value
					{"ADD+copy", "SET b = a ADD a :n", dx.Add(dy), f64(x) + f64(y)},
					{"copy+SET+", "SET b = a, a = a + :n", dx.Add(dy), f64(x) + f64(y)},
				} {
					if c.exact.Digits() > 38 {
						continue // outside DynamoDB's precision: no demand
					}
					ev.Breadcrumb(fmt.Sprintf("%s a=%s :n=%s", c.expr, x, y))
					big := "12345678901234567890123456789012345678"
					nested := val.Item{"keepL": val.L(val.S("x"), val.N(big)), "keepM": val.M("n", val.N(big), "l", val.L(val.N(big))), "keepNS": val.NS(big, "1")}
					out, after := itp.Update(c.expr, val.Item{"a": val.N(x), "keep": val.N(big), "keepL": nested["keepL"], "keepM": nested["keepM"], "keepNS": nested["keepNS"]}, nil, map[string]val.V{":n": val.N(y)})
					count("arith")
					if out.O != "T" {
						run.Report(fmt.Sprintf("C12|arith|%s|rejected", c.name), fmt.Sprintf("%s with a=%s :n=%s: %s %s", c.expr, x, y, out.O, out.Msg), map[string]interface{}{"expression": c.expr, "a": x, "n": y})
						continue
					}
					got := after["a"]
					gd, err := val.ParseDec(got.S)
					if got.T != "N" || err != nil {
						run.Report(fmt.Sprintf("C12|arith|%s|result-not-a-number", c.name), fmt.Sprintf("%s with a=%s :n=%s: result %s", c.expr, x, y, got.CanonText()), map[string]interface{}{"expression": c.expr, "a": x, "n": y})
						continue
					}
					if gd.Cmp(c.exact) != 0 {
						// the float64 model: the result, read as a double, is the double sum (an
						// attribute whose double value did not change keeps its stored text)
						explained := f64(got.S) == c.fl
						run.Report(fmt.Sprintf("C12|arith|explained-by-float64=%v", explained), fmt.Sprintf("%s with a=%s :n=%s: want %s got %s", c.expr, x, y, c.exact.Plain(), got.S), map[string]interface{}{"expression": c.expr, "a": x, "n": y})
					}
					if strings.Contains(c.name, "copy") {
						b := after["b"]
						if bd, err := val.ParseDec(b.S); b.T != "N" || err != nil || bd.Cmp(dx) != 0 {
							explained := b.T == "N" && err == nil && f64(b.S) == f64(x)
							run.Report(fmt.Sprintf("C12|arith-copy|explained-by-float64=%v", explained), fmt.Sprintf("%s with a=%s :n=%s: b must be the pre-update value %s, got %s", c.expr, x, y, x, b.CanonText()), map[string]interface{}{"expression": c.expr, "a": x, "n": y})
						}
					}
					if out.O == "T" {
						for k, want := range nested {
							if !val.Equal(after[k], want) {
								run.Report("C12|untouched-nested-number-changed|"+k, fmt.Sprintf("%s changed the untouched attribute %s from %s to %s", c.expr, k, want.CanonText(), after[k].CanonText()), map[string]interface{}{"expression": c.expr})
							}
						}
					}
					// the untouched 38-digit number
					keep := after["keep"]
					if kd, err := val.ParseDec(keep.S); keep.T != "N" || err != nil || kd.Cmp(val.MustDec("12345678901234567890123456789012345678")) != 0 {
						fl := strconv.FormatFloat(f64("12345678901234567890123456789012345678"), 'f', -1, 64)
						explained := err == nil && val.NumEqual(fl, keep.S)
						run.Report(fmt.Sprintf("C12|untouched-number-changed|explained-by-float64-reserialisation=%v", explained), fmt.Sprintf("%s changed the untouched attribute keep from 12345678901234567890123456789012345678 to %s", c.expr, keep.CanonText()), map[string]interface{}{"expression": c.expr})
					}
				}
				// number sets: ADD an equal member under another spelling must not grow the set; DELETE must remove it
				out, after := itp.Update("ADD s :ns", val.Item{"s": val.NS(x)}, nil, map[string]val.V{":ns": val.NS(y)})
				count("ns-add")
				wantLen := 2
				if dx.Cmp(dy) == 0 {
					wantLen = 1
				}
				if out.O != "T" || len(after["s"].SS) != wantLen {
					explained := (f64(x) == f64(y)) == (len(after["s"].SS) == 1)
					run.Report(fmt.Sprintf("C12|ns-add|explained-by-float64=%v", explained), fmt.Sprintf("ADD s :ns with s={%s} :ns={%s}: %s, result %s", x, y, out.O, after["s"].CanonText()), map[string]interface{}{"s": x, "ns": y})
				}
				out, after = itp.Update("DELETE s :ns", val.Item{"s": val.NS(x, "424242")}, nil, map[string]val.V{":ns": val.NS(y)})
				count("ns-delete")
				wantLen = 2
				if dx.Cmp(dy) == 0 {
					wantLen = 1
				}
				if out.O != "T" || len(after["s"].SS) != wantLen {
					explained := (f64(x) == f64(y)) == (len(after["s"].SS) == 1)
					run.Report(fmt.Sprintf("C12|ns-delete|explained-by-float64=%v", explained), fmt.Sprintf("DELETE s :ns with s={%s,424242} :ns={%s}: %s, result %s", x, y, out.O, after["s"].CanonText()), map[string]interface{}{"s": x, "ns": y})
				}
			})
		}
	}
	// 3. number keys through the client API: identity by value (hash and range position) and order
	keyNums := []string{"0", "-0", "0.0", "1", "1.0", "1.00", "01", "1e0", "10", "10.0", "010", "8", "9", "2", "2.0", "20", "20.0", "100", "100.00", "1e2", "0.1", "0.10", "0.5", "5e-1", "-1", "-1.50", "-10.0", "9007199254740992", "9007199254740993", "1E2", "1.50E+1", "15"}
	for _, d := range Drivers {
		d := d
		for _, pos := range []string{"hash", "range"} {
			pos := pos
			for _, x := range keyNums {
				for _, y := range keyNums {
					x, y := x, y
					add(func() {
						cfg := drv.TableCfg{Hash: "h", HashT: "N", Billing: "PAY_PER_REQUEST"}
						mk := func(n string) val.Item { return val.Item{"h": val.N(n)} }
						if pos == "range" {
							cfg = drv.TableCfg{Hash: "h", HashT: "S", Range: "r", RangeT: "N", Billing: "PAY_PER_REQUEST"}
							mk = func(n string) val.Item { return val.Item{"h": val.S("p"), "r": val.N(n)} }
						}
						ev.Breadcrumb(fmt.Sprintf("number key %s %s %s via %s", pos, x, y, d.Name))
						impl := d.New()
						impl.Do(drv.Op{K: drv.KCreate, Table: "tab", Cfg: &cfg})
						impl.Do(drv.Op{K: drv.KPut, Table: "tab", Item: with(mk(x), "v", val.S("first"))})
						same := val.NumEqual(x, y)
						g := impl.Do(drv.Op{K: drv.KGet, Table: "tab", Key: mk(y)})
						count("key-identity")
						found := len(g.Item) > 0
						if found != same {
							run.Report(fmt.Sprintf("C12|key-identity|%s|get|explained-by-key-text=%v@%s", pos, found == (x == y), d.Name), fmt.Sprintf("Put under %s, Get under %s: found=%v but values equal=%v", x, y, found, same), map[string]interface{}{"driver": d.Name, "position": pos, "x": x, "y": y})
						}
						impl.Do(drv.Op{K: drv.KPut, Table: "tab", Item: with(mk(y), "v", val.S("second"))})
						s := impl.Do(drv.Op{K: drv.KScan, Table: "tab"})
						wantN := 2
						if same {
							wantN = 1
						}
						if len(s.Items) != wantN {
							textN := 2
							if x == y {
								textN = 1
							}
							run.Report(fmt.Sprintf("C12|key-identity|%s|overwrite|explained-by-key-text=%v@%s", pos, len(s.Items) == textN, d.Name), fmt.Sprintf("Put under %s then under %s: %d items, want %d", x, y, len(s.Items), wantN), map[string]interface{}{"driver": d.Name, "position": pos, "x": x, "y": y})
						}
					})
				}
			}
		}
		// order of number and binary sort keys: every 3-subset
		orderNums := []string{"1", "2", "10", "9", "100", "-1", "-10", "0.5", "1e1"}
		for i := 0; i < len(orderNums); i++ {
			for j := i + 1; j < len(orderNums); j++ {
				for k := j + 1; k < len(orderNums); k++ {
					trio := []string{orderNums[i], orderNums[j], orderNums[k]}
					add(func() {
						cfg := drv.TableCfg{Hash: "h", HashT: "S", Range: "r", RangeT: "N", Billing: "PAY_PER_REQUEST"}
						impl := d.New()
						impl.Do(drv.Op{K: drv.KCreate, Table: "tab", Cfg: &cfg})
						distinct := map[string]bool{}
						for _, n := range trio {
							distinct[val.MustDec(n).String()] = true
							impl.Do(drv.Op{K: drv.KPut, Table: "tab", Item: val.Item{"h": val.S("p"), "r": val.N(n)}})
						}
						if len(distinct) != 3 {
							return
						}
						for _, rev := range []bool{false, true} {
							q := impl.Do(drv.Op{K: drv.KQuery, Table: "tab", KeyCond: rx.Eq("h", ":p"), Values: map[string]val.V{":p": val.S("p")}, Reverse: rev})
							count("key-order-N")
							ok := len(q.Items) == 3
							for x := 1; ok && x < len(q.Items); x++ {
								c, _ := val.Compare(q.Items[x-1]["r"], q.Items[x]["r"])
								if rev {
									c = -c
								}
								ok = c < 0
							}
							if !ok {
								run.Report(fmt.Sprintf("C12|key-order|N|explained-by-text-order=%v@%s", textOrdered(q.Items, "r", rev), d.Name), fmt.Sprintf("Query (reverse=%v) over sort keys %v returned %v", rev, trio, seqOf(q.Items, "r")), map[string]interface{}{"driver": d.Name, "keys": trio, "reverse": rev})
							}
						}
					})
				}
			}
		}
		bins := [][]byte{{9}, {10}, {1, 0}, {255}, {9, 0}, {100}, {1}}
		for i := 0; i < len(bins); i++ {
			for j := i + 1; j < len(bins); j++ {
				pair := [][]byte{bins[i], bins[j]}
				add(func() {
					cfg := drv.TableCfg{Hash: "h", HashT: "S", Range: "r", RangeT: "B", Billing: "PAY_PER_REQUEST"}
					impl := d.New()
					impl.Do(drv.Op{K: drv.KCreate, Table: "tab", Cfg: &cfg})
					for _, b := range pair {
						impl.Do(drv.Op{K: drv.KPut, Table: "tab", Item: val.Item{"h": val.S("p"), "r": val.V{T: "B", B: b}}})
					}
					q := impl.Do(drv.Op{K: drv.KQuery, Table: "tab", KeyCond: rx.Eq("h", ":p"), Values: map[string]val.V{":p": val.S("p")}})
					count("key-order-B")
					ok := len(q.Items) == 2
					if ok {
						c, _ := val.Compare(q.Items[0]["r"], q.Items[1]["r"])
						ok = c < 0
					}
					if !ok {
						run.Report(fmt.Sprintf("C12|key-order|B|explained-by-text-order=%v@%s", len(q.Items) == 2 && textOrdered(q.Items, "r", false), d.Name), fmt.Sprintf("Query over binary sort keys %v returned %v (err %s)", pair, seqOf(q.Items, "r"), q.Err), map[string]interface{}{"driver": d.Name, "keys": pair})
					}
				})
			}
		}
	}
	ch := make(chan func(), 1024)
	var wg sync.WaitGroup
	for w := 0; w < 16; w++ {
		wg.Add(1)
		go func() {
			defer wg.Done()
			for f := range ch {
				f()
			}
		}()
	}
	for _, j := range jobs {
		ch <- j
	}
	close(ch)
	wg.Wait()
	ks := make([]string, 0, len(hist))
	for k := range hist {
		ks = append(ks, k)
	}
	sort.Strings(ks)
	return map[string]interface{}{
		"evaluations":         evals,
		"distinct_nontrivial": len(jobs),
		"numeral_alphabet":    nums,
		"rule":                "every ordered pair of numerals of the alphabet (leading/trailing zeros incl. 010 and 0100 which a base-guessing parser reads as octal, exponent form, negative zero, 2^53 and 2^53+1, two 38-digit neighbours, 0.1+0.2, extreme exponents) under the six comparators, IN, contains on a number set, SET +, SET -, ADD, number-set ADD and DELETE, BETWEEN triples; every pair of key numerals as N hash key and as N range key (put under one spelling, get and overwrite under the other); Query order of every 3-subset of number sort keys and every pair of binary sort keys; an untouched 38-digit attribute across every arithmetic update; a job is distinct by (form, numerals)",
		"oracle":              "exact decimal arithmetic and comparison (math/big), identity of keys by numeric value, order by value; a wrong answer is attributed to the float64 / key-text findings only when it equals what that defect model predicts",
		"samples":             []interface{}{"a = :n with a=9007199254740993 :n=9007199254740992", "SET a = a + :n with a=0.1 :n=0.2", "Put h=1 / Get h=1.0", "Query order of r in {1,2,10}"},
		"exhaustive":          true,
		"evaluations_by_kind": hist,
	}
}

func seqOf(items []val.Item, attr string) []string {
	o := make([]string, len(items))
	for i, it := range items {
		o[i] = it[attr].CanonText()
	}
	return o
}
