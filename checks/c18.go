package checks

import (
	"strings"

	"verif/drv"
	"verif/ev"
	"verif/mc"
	"verif/model"
	"verif/rx"
	"verif/val"
)

func init() { Registry["C18"] = C18 }

func c18Configs(thorough bool) (valid []drv.TableCfg, invalid []drv.TableCfg) {
	g := drv.IndexCfg{Name: "gsi", Hash: "g", HashT: "S"}
	g2 := drv.IndexCfg{Name: "gs2", Hash: "a", HashT: "S", Range: "g", RangeT: "S"}
	l := drv.IndexCfg{Name: "lsi", Hash: "h", HashT: "S", Range: "g", RangeT: "S", Local: true}
	gt := g
	gt.Throughput = true
	valid = []drv.TableCfg{
		{Hash: "h", HashT: "S", Billing: "PAY_PER_REQUEST"},
		{Hash: "h", HashT: "S", Range: "r", RangeT: "N", Billing: "PAY_PER_REQUEST", GSI: []drv.IndexCfg{g}},
		{Hash: "h", HashT: "N", Billing: "PROVISIONED", Throughput: true},
	}
	if thorough {
		valid = append(valid,
			drv.TableCfg{Hash: "h", HashT: "S", Range: "r", RangeT: "S", Billing: "PAY_PER_REQUEST"},
			drv.TableCfg{Hash: "h", HashT: "S", Billing: "PAY_PER_REQUEST", GSI: []drv.IndexCfg{g, g2}},
			drv.TableCfg{Hash: "h", HashT: "S", Range: "r", RangeT: "S", Billing: "PAY_PER_REQUEST", GSI: []drv.IndexCfg{g}, LSI: []drv.IndexCfg{l}},
			drv.TableCfg{Hash: "h", HashT: "S", Billing: "PROVISIONED", Throughput: true, GSI: []drv.IndexCfg{gt}},
		)
	}
	invalid = []drv.TableCfg{
		{Hash: "h", HashT: "S", Billing: "PROVISIONED"},
		{Hash: "h", HashT: "S"},
		{Hash: "h", HashT: "S", Billing: "PROVISIONED", Throughput: true, GSI: []drv.IndexCfg{g}},
	}
	return
}

func typedVal(t, s, n string) val.V {
	if t == "N" {
		return val.N(n)
	}
	return val.S(s)
}

// c18Key builds key i (1-based) for a table configuration.
func c18Key(cfg drv.TableCfg, i int) val.Item {
	names := []string{"", "k1", "k2"}
	nums := []string{"", "1", "2"}
	k := val.Item{cfg.Hash: typedVal(cfg.HashT, names[i], nums[i])}
	if cfg.Range != "" {
		k[cfg.Range] = typedVal(cfg.RangeT, "r"+names[i], nums[i])
	}
	return k
}

func c18Alphabet(slots []string, nkeys int, thorough bool, batchGet bool) func(m *model.Model) []drv.Op {
	valid, invalid := c18Configs(thorough)
	return func(m *model.Model) []drv.Op {
		var ops []drv.Op
		add := func(tag string, o drv.Op) {
			o.Tag = tag
			ops = append(ops, o)
		}
		for _, s := range slots {
			t, exists := m.Tables[s]
			if !exists {
				for i := range valid {
					add("CreateTable(valid)", drv.Op{K: drv.KCreate, Table: s, Cfg: &valid[i]})
				}
				for i := range invalid {
					add("CreateTable(invalid)", drv.Op{K: drv.KCreate, Table: s, Cfg: &invalid[i]})
				}
				add("AddTable(h)", drv.Op{K: drv.KAddTable, Table: s, Cfg: &drv.TableCfg{Hash: "h"}})
				add("AddTable(h,r)", drv.Op{K: drv.KAddTable, Table: s, Cfg: &drv.TableCfg{Hash: "h", Range: "r"}})
				// operations on a table that does not exist
				add("DeleteTable(absent)", drv.Op{K: drv.KDeleteTbl, Table: s})
				add("DescribeTable(absent)", drv.Op{K: drv.KDescribe, Table: s})
				add("ClearTable(absent)", drv.Op{K: drv.KClear, Table: s})
				add("UpdateTable(absent)", drv.Op{K: drv.KCreateGSI, Table: s, IdxCfg: &drv.IndexCfg{Name: "gsx", Hash: "g", HashT: "S"}})
				add("AddIndex(absent)", drv.Op{K: drv.KAddIndex, Table: s, IdxCfg: &drv.IndexCfg{Name: "gsx", Hash: "g"}})
				add("Put(absent)", drv.Op{K: drv.KPut, Table: s, Item: val.Item{"h": val.S("k1")}})
				add("Get(absent)", drv.Op{K: drv.KGet, Table: s, Key: val.Item{"h": val.S("k1")}})
				add("Scan(absent)", drv.Op{K: drv.KScan, Table: s})
				add("BatchWrite(absent)", drv.Op{K: drv.KBatchWrite, Batch: []drv.BWReq{{Table: s, Put: val.Item{"h": val.S("k1")}}}})
				if batchGet {
					add("BatchGet(absent)", drv.Op{K: drv.KBatchGet, BGKeys: map[string][]val.Item{s: {{"h": val.S("k1")}}}})
				}
				continue
			}
			add("CreateTable(existing)", drv.Op{K: drv.KCreate, Table: s, Cfg: &valid[0]})
			add("AddTable(existing)", drv.Op{K: drv.KAddTable, Table: s, Cfg: &drv.TableCfg{Hash: "h"}})
			add("DeleteTable", drv.Op{K: drv.KDeleteTbl, Table: s})
			add("ClearTable", drv.Op{K: drv.KClear, Table: s})
			if _, ok := t.Indexes["gsx"]; ok {
				add("UpdateTable(delete gsx)", drv.Op{K: drv.KDeleteGSI, Table: s, Index: "gsx"})
			} else {
				add("UpdateTable(create gsx)", drv.Op{K: drv.KCreateGSI, Table: s, IdxCfg: &drv.IndexCfg{Name: "gsx", Hash: "a", HashT: "S", Throughput: t.Cfg.Billing != "PAY_PER_REQUEST"}})
				add("UpdateTable(delete missing gsx)", drv.Op{K: drv.KDeleteGSI, Table: s, Index: "gsx"})
				if t.Cfg.Billing == "PAY_PER_REQUEST" {
					add("AddIndex(gsx)", drv.Op{K: drv.KAddIndex, Table: s, IdxCfg: &drv.IndexCfg{Name: "gsx", Hash: "a", Range: "g"}})
				}
			}
			// several index changes in one request: all of them or none
			{
				thr := t.Cfg.Billing != "PAY_PER_REQUEST"
				gsy := &drv.IndexCfg{Name: "gsy", Hash: "g", HashT: "S", Throughput: thr}
				if _, ok := t.Indexes["gsy"]; !ok {
					add("UpdateTable(create gsy, delete unknown)", drv.Op{K: drv.KUpdateTbl, Table: s, Changes: []drv.IdxChange{{Create: gsy}, {Delete: "nosuchindex"}}})
					if _, ok := t.Indexes["gsx"]; ok {
						add("UpdateTable(delete gsx, create gsy)", drv.Op{K: drv.KUpdateTbl, Table: s, Changes: []drv.IdxChange{{Delete: "gsx"}, {Create: gsy}}})
						add("UpdateTable(delete gsx, delete unknown)", drv.Op{K: drv.KUpdateTbl, Table: s, Changes: []drv.IdxChange{{Delete: "gsx"}, {Delete: "nosuchindex"}}})
					}
				} else {
					add("UpdateTable(delete gsy)", drv.Op{K: drv.KDeleteGSI, Table: s, Index: "gsy"})
				}
			}
			// a write that is rejected for an index key of the wrong type, on a stored and on an absent key:
			// the table and DescribeTable's counts stay as they were
			if len(t.Indexes) > 0 {
				add("Upd(index keys of the wrong type)", drv.Op{K: drv.KUpd, Table: s, Key: c18Key(t.Cfg, 1), Upd: rx.U(rx.Set("a", rx.RV(":n")), rx.Set("g", rx.RV(":n"))), Values: map[string]val.V{":n": val.N("5")}})
			}
			for i := 1; i <= nkeys; i++ {
				k := c18Key(t.Cfg, i)
				add("Put", drv.Op{K: drv.KPut, Table: s, Item: with(k, "a", val.S("v"), "g", val.S("x"))})
				if i == 1 && s == slots[0] && (thorough || !strings.HasPrefix(slots[len(slots)-1], "c2:")) {
					// (first slot only, and in the quick tier only in the one-client system, to keep it small) an item without the attributes the indexes are keyed on: it stays out of every
					// index, also of one created later on the populated table
					add("Put(key only)", drv.Op{K: drv.KPut, Table: s, Item: k.Clone()})
				}
				add("Del", drv.Op{K: drv.KDel, Table: s, Key: k})
			}
		}
		return ops
	}
}

func c18Universe(slots []string) Universe {
	u := Universe{Keys: map[string][]val.Item{}}
	for _, s := range slots {
		// keys of every schema used by the configurations
		u.Keys[s] = []val.Item{
			{"h": val.S("k1")}, {"h": val.S("k2")}, {"h": val.N("1")}, {"h": val.N("2")},
			{"h": val.S("k1"), "r": val.S("rk1")}, {"h": val.S("k2"), "r": val.S("rk2")},
			{"h": val.S("k1"), "r": val.N("1")}, {"h": val.S("k2"), "r": val.N("2")},
		}
	}
	return u
}

// c18Observe reads every slot: the observation of existing tables, and the ResourceNotFound
// answers of absent ones.
func c18Observe(slots []string) func(m *model.Model) []drv.Op {
	u := c18Universe(slots)
	return func(m *model.Model) []drv.Op {
		// only keys that fit the table's schema (others are validation errors, C13's business)
		uu := Universe{Keys: map[string][]val.Item{}}
		for _, s := range slots {
			t, ok := m.Tables[s]
			if !ok {
				continue
			}
			for _, k := range u.Keys[s] {
				if len(k) != 1+btoi(t.Cfg.Range != "") {
					continue
				}
				if k["h"].T != t.Cfg.HashT {
					continue
				}
				if t.Cfg.Range != "" && k["r"].T != t.Cfg.RangeT {
					continue
				}
				uu.Keys[s] = append(uu.Keys[s], k)
			}
		}
		ops := ObserveOps(m, uu)
		for _, s := range slots {
			if _, ok := m.Tables[s]; !ok {
				ops = append(ops, drv.Op{K: drv.KDescribe, Table: s})
			}
		}
		return ops
	}
}

func btoi(b bool) int {
	if b {
		return 1
	}
	return 0
}

// C18: table lifecycle and metadata stay coherent.
func C18(run *ev.Run, tier string) map[string]interface{} {
	thorough := tier == "thorough"
	dl := deadline(tier)
	total := mc.Stats{Exhaustive: true}
	per := map[string]interface{}{}
	type sys struct {
		name  string
		slots []string
		nkeys int
	}
	systems := []sys{
		{"two-clients", []string{"tb1", "c2:tb1"}, 1},
		{"two-tables", []string{"tb1", "tb2"}, 1},
	}
	if thorough {
		systems = []sys{
			{"two-clients", []string{"tb1", "c2:tb1"}, 2},
			{"two-tables", []string{"tb1", "tb2"}, 2},
			{"two-clients-two-tables", []string{"tb1", "tb2", "c2:tb1", "c2:tb2"}, 1},
		}
	}
	for _, d := range Drivers {
		d := d
		for _, sy := range systems {
			maxStates := 30000
			if thorough {
				maxStates = 300000
			}
			st := mc.Explore(mc.Sys{
				Name:      "C18/" + sy.name,
				NewImpl:   func() drv.Driver { return &drv.Multi{Cs: []drv.Driver{d.New(), d.New()}} },
				Alphabet:  c18Alphabet(sy.slots, sy.nkeys, thorough, d.Name == "v2"), // the v1 client has no BatchGetItem
				Observe:   c18Observe(sy.slots),
				SigOf:     mc.DefaultSig("C18"),
				MaxStates: maxStates,
				Deadline:  dl,
			}, run)
			per[d.Name+"/"+sy.name] = map[string]interface{}{"states": st.States, "transitions": st.Transitions, "max_depth": st.MaxDepth, "exhaustive": st.Exhaustive, "cap_hit": st.CapHit}
			total.Merge(st)
		}
	}
	cov := total.Coverage()
	cov["per_system"] = per
	cov["alphabet"] = "CreateTable (valid configurations: billing modes, H/HR, S/N keys, 0-2 GSI, 0-1 LSI; invalid: no throughput), AddTable, DeleteTable, UpdateTable create/delete GSI, AddIndex, ClearTable, DescribeTable, Put (also of a key-only item), Del and every operation on absent tables (incl. BatchWriteItem and BatchGetItem), over table slots of one or two clients"
	cov["oracle"] = "catalogue model: ResourceInUse / ResourceNotFound classes, new table empty with declared schema and indexes, DescribeTable = current item/index counts, delete/clear empty the table and indexes, re-created table conforms like a fresh one in all futures, operations on one slot never change the observation of another (two real clients are driven as one catalogue with distinct names)"
	return cov
}
