package checks

import (
	"fmt"
	"strings"
	"sync"
	"sync/atomic"

	"verif/drv"
	"verif/ev"
	"verif/mc"
	"verif/model"
	"verif/rx"
	"verif/val"
)

func init() { Registry["C13"] = C13 }

// keyText is the rendering the implementation is known to use for a key component (the defect
// model "keys are '%v' renderings joined by '.'"): used only to attribute a collision to the
// known finding, never to predict a correct answer.
func keyText(v val.V) string {
	if v.T == "B" {
		return fmt.Sprintf("%v", v.B)
	}
	return v.S
}

func dotJoin(k val.Item, cfg drv.TableCfg) string {
	s := keyText(k[cfg.Hash])
	if cfg.Range != "" {
		s += "." + keyText(k[cfg.Range])
	}
	return s
}

type c13schema struct {
	name   string
	cfg    drv.TableCfg
	hashes []val.V
	ranges []val.V
}

func c13Schemas(thorough bool) []c13schema {
	ss := func(xs ...string) []val.V {
		o := make([]val.V, len(xs))
		for i, x := range xs {
			o[i] = val.S(x)
		}
		return o
	}
	// components containing the internal separator '.', characters sorting just before and after it,
	// case and whitespace variants, a non-ASCII character, text that a formatting routine would interpret (%s, %v, %.)
	strs := ss("a", "b", "a.b", "b.c", "a.", ".", ".b", "a.b.c", "A", "a ", "a-b", "a/b", "%.", "%s", "%v", "50%")
	if thorough {
		strs = append(strs, ss("c", "a..b", "..", "b.", "a.b.", ".a", " a", "a-", "a/", "é", "a\tb", "0", "00", "%%", "%.%", "50% ", "\\", "\"", "{}", "[1 2]")...)
	}
	out := []c13schema{
		{"HR(S,S)", drv.TableCfg{Hash: "h", HashT: "S", Range: "r", RangeT: "S", Billing: "PAY_PER_REQUEST"}, strs, strs},
		{"HR(S,N)", drv.TableCfg{Hash: "h", HashT: "S", Range: "r", RangeT: "N", Billing: "PAY_PER_REQUEST"}, ss("a", "a.1", "a.1.2", "a."), []val.V{val.N("1"), val.N("2"), val.N("1.2"), val.N("2.5"), val.N("12"), val.N("10.0"), val.N("20"), val.N("100"), val.N("0.5")}},
		{"HR(B,S)", drv.TableCfg{Hash: "h", HashT: "B", Range: "r", RangeT: "S", Billing: "PAY_PER_REQUEST"}, []val.V{val.B(97), val.B(97, 46, 98), val.B(57), val.B(57, 55), val.B(0), val.B(97, 0), val.B(255), val.B(1, 2), val.B(18)}, ss("x", "98]", "]", "x.y")},
		{"H(S)", drv.TableCfg{Hash: "h", HashT: "S", Billing: "PAY_PER_REQUEST"}, strs, nil},
		// binary hash and range keys holding the byte of the separator (0x2E), of a blank, of brackets
		{"HR(B,B)", drv.TableCfg{Hash: "h", HashT: "B", Range: "r", RangeT: "B", Billing: "PAY_PER_REQUEST"},
			[]val.V{val.B(1), val.B(1, 46, 2), val.B(2, 46, 3), val.B(3), val.B(46), val.B(1, 46), val.B(46, 2), val.B(1, 32, 2), val.B(91, 49, 93)},
			[]val.V{val.B(1), val.B(1, 46, 2), val.B(2, 46, 3), val.B(3), val.B(46), val.B(2), val.B(46, 3), val.B(2, 32, 3)}},
	}
	return out
}

// c13Pairs: for every ordered pair of distinct keys, a fixed nine-step history compared with the
// reference model.
func c13Pairs(run *ev.Run, thorough bool) (evals int64, distinct int64, collisions int64, samples []interface{}) {
	var mu sync.Mutex
	for _, d := range Drivers {
		d := d
		for _, sc := range c13Schemas(thorough) {
			sc := sc
			var keys []val.Item
			for _, h := range sc.hashes {
				if sc.ranges == nil {
					keys = append(keys, val.Item{sc.cfg.Hash: h})
					continue
				}
				for _, r := range sc.ranges {
					keys = append(keys, val.Item{sc.cfg.Hash: h, sc.cfg.Range: r})
				}
			}
			type job struct{ i, j int }
			jobs := make(chan job, 256)
			var wg sync.WaitGroup
			for w := 0; w < 16; w++ {
				wg.Add(1)
				go func() {
					defer wg.Done()
					for jb := range jobs {
						k1, k2 := keys[jb.i], keys[jb.j]
						ev.Breadcrumb("keypair " + sc.name + " " + k1.CanonText() + " " + k2.CanonText())
						impl := d.New()
						m := model.New()
						hist := []drv.Op{
							{K: drv.KCreate, Table: "tab", Cfg: &sc.cfg},
							{K: drv.KPut, Table: "tab", Item: with(k1, "v", val.N("1"))},
							{K: drv.KPut, Table: "tab", Item: with(k2, "v", val.N("2"))},
							{K: drv.KGet, Table: "tab", Key: k1},
							{K: drv.KGet, Table: "tab", Key: k2},
							{K: drv.KScan, Table: "tab"},
							{K: drv.KDescribe, Table: "tab"},
							{K: drv.KDel, Table: "tab", Key: k1, AllOld: true},
							{K: drv.KGet, Table: "tab", Key: k2},
							{K: drv.KScan, Table: "tab"},
						}
						atomic.AddInt64(&evals, 1)
						for step, op := range hist {
							g := impl.Do(op)
							w := m.Do(op)
							if df := drv.Compare(op, g, w); df != nil {
								explained := dotJoin(k1, sc.cfg) == dotJoin(k2, sc.cfg)
								sig := fmt.Sprintf("C13|keypair %s|step%d %s|%s|explained-by-dot-join=%v@%s", sc.name, step, op.K, df.Kind, explained, d.Name)
								atomic.AddInt64(&collisions, 1)
								run.Report(sig, fmt.Sprintf("keys %s and %s: %s", k1.CanonText(), k2.CanonText(), df.String()),
									mc.Replay{Driver: d.Name, System: "C13/keypair/" + sc.name, History: hist[:step], Op: op, Got: g.Short(), Want: w.Short()})
								break
							}
						}
						mu.Lock()
						if len(samples) < 4 {
							samples = append(samples, map[string]interface{}{"schema": sc.name, "key1": k1.CanonText(), "key2": k2.CanonText()})
						}
						mu.Unlock()
					}
				}()
			}
			for i := range keys {
				for j := range keys {
					if i != j {
						jobs <- job{i, j}
						distinct++
					}
				}
			}
			close(jobs)
			wg.Wait()
		}
	}
	return
}

// c13Bulk: every key over a generated component alphabet (all strings of length 1..L over
// characters that a key encoding may treat specially: separators, escape characters, format
// verbs) is written into ONE table with its own number, then every key is read back, the table is
// scanned and counted, every second key is deleted and everything is read again. A collision
// between any two of the N keys shows in O(N) calls (the pair histories above need N*N).
func c13Bulk(run *ev.Run, thorough bool) (keysTotal int64, ops int64, diverging int64) {
	chars := []string{"a", ".", "\\", "%", "|", "/", ":", "#"}
	gen := func(maxLen int) []string {
		var out, last []string
		last = []string{""}
		for l := 1; l <= maxLen; l++ {
			var next []string
			for _, p := range last {
				for _, c := range chars {
					next = append(next, p+c)
				}
			}
			out = append(out, next...)
			last = next
		}
		return out
	}
	l2, l3 := gen(2), gen(3)
	type bulk struct {
		name string
		cfg  drv.TableCfg
		keys []val.Item
	}
	var hr, h []val.Item
	for _, a := range l2 {
		for _, b := range l2 {
			hr = append(hr, hrKey(a, b))
		}
	}
	hs := l3
	if thorough {
		hs = gen(4)
	}
	for _, a := range hs {
		h = append(h, hKey(a))
	}
	systems := []bulk{
		{"HR(S,S)", drv.TableCfg{Hash: "h", HashT: "S", Range: "r", RangeT: "S", Billing: "PAY_PER_REQUEST"}, hr},
		{"H(S)", drv.TableCfg{Hash: "h", HashT: "S", Billing: "PAY_PER_REQUEST"}, h},
	}
	if thorough {
		// hash of up to three characters with a range of one or two
		var hr3 []val.Item
		for _, a := range l3 {
			for _, b := range l2 {
				hr3 = append(hr3, hrKey(a, b))
			}
		}
		systems = append(systems, bulk{"HR(S,S) long hash", systems[0].cfg, hr3})
	}
	for _, d := range Drivers {
		for _, sy := range systems {
			impl := d.New()
			impl.Do(drv.Op{K: drv.KCreate, Table: "tab", Cfg: &sy.cfg})
			keysTotal += int64(len(sy.keys))
			// the defect model of the recorded finding (one map keyed by the dot-joined text): what
			// it predicts is used only to attribute a divergence, never as the expected answer
			dm := map[string]int{}
			report := func(phase string, i int, explained bool, detail string, op drv.Op, got string) {
				diverging++
				run.Report(fmt.Sprintf("C13|bulk %s|%s|explained-by-dot-join=%v@%s", sy.name, phase, explained, d.Name),
					fmt.Sprintf("key %s: %s", sy.keys[i].CanonText(), detail),
					mc.Replay{Driver: d.Name, System: "C13/bulk/" + sy.name, Op: op, Got: got, Want: "the item written under that key (v = " + fmt.Sprint(i) + ")"})
			}
			for i, k := range sy.keys {
				ev.Breadcrumb("bulk put " + sy.name + " " + k.CanonText())
				op := drv.Op{K: drv.KPut, Table: "tab", Item: with(k, "v", val.N(fmt.Sprint(i)))}
				if r := impl.Do(op); r.Err != "" {
					report("put-rejected", i, false, "PutItem of a valid key failed: "+r.Err, op, r.Short())
				}
				dm[dotJoin(k, sy.cfg)] = i
				ops++
			}
			readAll := func(phase string, deleted func(i int) bool) {
				n := 0
				for i, k := range sy.keys {
					op := drv.Op{K: drv.KGet, Table: "tab", Key: k}
					r := impl.Do(op)
					ops++
					want := !deleted(i)
					if want {
						n++
					}
					got := -1 // index of the item returned, -1 = nothing
					if len(r.Item) != 0 {
						got = -2 // something that carries no number
						if v, ok := r.Item["v"]; ok {
							fmt.Sscan(v.S, &got)
						}
					}
					pred, ok := dm[dotJoin(k, sy.cfg)]
					if !ok {
						pred = -1
					}
					explained := got == pred && (got < 0 || val.Equal(val.V{T: "M", M: without(r.Item, "v")}, val.V{T: "M", M: sy.keys[got]}))
					switch {
					case r.Err != "":
						report(phase+"|get-error", i, false, "GetItem failed: "+r.Err, op, r.Short())
					case want && got == -1:
						report(phase+"|get-missing", i, explained, "GetItem finds nothing under a key that was written and not deleted", op, r.Short())
					case !want && got != -1:
						report(phase+"|get-deleted-key-still-answers", i, explained, "GetItem returns an item under a deleted key", op, r.Short())
					case want:
						if got != i || !val.Equal(val.V{T: "M", M: without(r.Item, "v")}, val.V{T: "M", M: k}) {
							report(phase+"|get-other-item", i, explained, "GetItem returns an item that was written under another key", op, r.Short())
						}
					}
				}
				sc := impl.Do(drv.Op{K: drv.KScan, Table: "tab"})
				ds := impl.Do(drv.Op{K: drv.KDescribe, Table: "tab"})
				ops += 2
				seen := map[string]bool{}
				for _, it := range sc.Items {
					seen[without(it, "v").Canon()] = true
				}
				cnt := int64(-1)
				if ds.Desc != nil {
					cnt = ds.Desc.Count
				}
				if len(sc.Items) != n || len(seen) != n || cnt != int64(n) {
					explained := len(sc.Items) == len(dm) && len(seen) == len(dm) && cnt == int64(len(dm))
					report(phase+"|scan-or-count", 0, explained, fmt.Sprintf("%d keys are stored; Scan returns %d items (%d distinct keys), DescribeTable counts %d", n, len(sc.Items), len(seen), cnt), drv.Op{K: drv.KScan, Table: "tab"}, fmt.Sprintf("items=%d", len(sc.Items)))
				}
			}
			readAll("after-puts", func(int) bool { return false })
			for i, k := range sy.keys {
				if i%2 == 0 {
					impl.Do(drv.Op{K: drv.KDel, Table: "tab", Key: k})
					delete(dm, dotJoin(k, sy.cfg))
					ops++
				}
			}
			readAll("after-deleting-every-second-key", func(i int) bool { return i%2 == 0 })
		}
	}
	return
}

func c13Alphabet(cfg drv.TableCfg, keys []val.Item, batchGet bool) func(m *model.Model) []drv.Op {
	hr := cfg.Range != ""
	return func(m *model.Model) []drv.Op {
		var ops []drv.Op
		add := func(tag string, o drv.Op) {
			o.Tag = tag
			o.Table = "tab"
			ops = append(ops, o)
		}
		z := map[string]val.V{":z": val.S("z")}
		for _, k := range keys {
			add("Put", drv.Op{K: drv.KPut, Item: with(k, "a", val.S("v"))})
			add("Del", drv.Op{K: drv.KDel, Key: k})
			add("Upd(SET a)", drv.Op{K: drv.KUpd, Key: k, Upd: rx.U(rx.Set("a", rx.RV(":z"))), Values: z})
			// updates that name key attributes: must be rejected (or leave the key intact)
			add("Upd(SET h)", drv.Op{K: drv.KUpd, Key: k, Upd: rx.U(rx.Set("h", rx.RV(":z"))), Values: z})
			add("Upd(REMOVE h)", drv.Op{K: drv.KUpd, Key: k, Upd: rx.U(rx.Remove("h"))})
			add("Upd(ADD h :ss)", drv.Op{K: drv.KUpd, Key: k, Upd: rx.U(rx.Add("h", ":ss")), Values: map[string]val.V{":ss": val.SS("q")}})
			add("Upd(SET h = same value)", drv.Op{K: drv.KUpd, Key: k, Upd: rx.U(rx.Set("h", rx.RV(":same")), rx.Set("a", rx.RV(":z"))), Values: map[string]val.V{":same": k["h"], ":z": val.S("z")}})
			if hr {
				add("Upd(SET r)", drv.Op{K: drv.KUpd, Key: k, Upd: rx.U(rx.Set("r", rx.RV(":z"))), Values: z})
				add("Upd(REMOVE r)", drv.Op{K: drv.KUpd, Key: k, Upd: rx.U(rx.Remove("r"))})
				add("Upd(DELETE r :ss)", drv.Op{K: drv.KUpd, Key: k, Upd: rx.U(rx.Delete("r", ":ss")), Values: map[string]val.V{":ss": val.SS("q")}})
			}
		}
		// malformed keys: every request kind x every malformation
		type mal struct {
			name string
			key  val.Item
		}
		k0 := keys[0]
		mals := []mal{
			{"missing hash", without(k0, "h")},
			{"wrong-typed hash", with(k0, "h", val.N("5"))},
			{"hash is NULL", with(k0, "h", val.Null())},
			{"hash is a list", with(k0, "h", val.L(val.S("a")))},
			{"empty key", val.Item{}},
		}
		if hr {
			mals = append(mals,
				mal{"missing range", without(k0, "r")},
				mal{"wrong-typed range", with(k0, "r", val.N("5"))},
				mal{"range is a set", with(k0, "r", val.SS("x"))},
			)
		}
		for _, ml := range mals {
			add("Get("+ml.name+")", drv.Op{K: drv.KGet, Key: ml.key})
			add("Put("+ml.name+")", drv.Op{K: drv.KPut, Item: with(ml.key, "a", val.S("bad"))})
			add("Upd("+ml.name+")", drv.Op{K: drv.KUpd, Key: ml.key, Upd: rx.U(rx.Set("a", rx.RV(":z"))), Values: z})
			add("Del("+ml.name+")", drv.Op{K: drv.KDel, Key: ml.key})
			// the same malformed keys inside batch calls, next to a well-formed request
			add("BatchWrite(put "+ml.name+")", drv.Op{K: drv.KBatchWrite, Batch: []drv.BWReq{{Table: "tab", Put: with(keys[1], "a", val.S("ok"))}, {Table: "tab", Put: with(ml.key, "a", val.S("bad"))}}})
			add("BatchWrite(delete "+ml.name+")", drv.Op{K: drv.KBatchWrite, Batch: []drv.BWReq{{Table: "tab", Del: ml.key.Clone()}, {Table: "tab", Put: with(keys[1], "a", val.S("ok"))}}})
			if batchGet {
				add("BatchGet("+ml.name+")", drv.Op{K: drv.KBatchGet, BGKeys: map[string][]val.Item{"tab": {keys[0].Clone(), ml.key.Clone()}}})
			}
		}
		return ops
	}
}

func without(it val.Item, name string) val.Item {
	o := it.Clone()
	delete(o, name)
	return o
}

// C13: primary keys identify items faithfully and are enforced.
func C13(run *ev.Run, tier string) map[string]interface{} {
	thorough := tier == "thorough"
	dl := deadline(tier)
	evals, distinct, coll, samples := c13Pairs(run, thorough)
	bulkKeys, bulkOps, bulkDiv := c13Bulk(run, thorough)
	type sys struct {
		name string
		cfg  drv.TableCfg
		keys []val.Item
	}
	systems := []sys{
		{"H", drv.TableCfg{Hash: "h", HashT: "S", Billing: "PAY_PER_REQUEST"}, []val.Item{hKey("k1"), hKey("z")}},
		{"HR", drv.TableCfg{Hash: "h", HashT: "S", Range: "r", RangeT: "S", Billing: "PAY_PER_REQUEST"}, []val.Item{hrKey("k1", "r1"), hrKey("k1", "z")}},
	}
	total, per := exploreBoth(run, func(newImpl func() drv.Driver, dn string) []mc.Sys {
		var out []mc.Sys
		for _, sy := range systems {
			sy := sy
			u := Universe{Keys: map[string][]val.Item{"tab": sy.keys}}
			if sy.cfg.Range == "" {
				u.Keys["tab"] = append(u.Keys["tab"], hKey("z"))
			} else {
				u.Keys["tab"] = append(u.Keys["tab"], hrKey("z", "r1"), hrKey("z", "z"), hrKey("k1", "z"))
			}
			out = append(out, mc.Sys{
				Name:      "C13/" + sy.name,
				NewImpl:   newImpl,
				Init:      []drv.Op{{K: drv.KCreate, Table: "tab", Cfg: &sy.cfg}},
				Alphabet:  c13Alphabet(sy.cfg, sy.keys, dn == "v2"), // the v1 client has no BatchGetItem (C19's recorded finding)
				Observe:   func(m *model.Model) []drv.Op { return ObserveOps(m, u) },
				SigOf:     mc.DefaultSig("C13"),
				MaxStates: 100000,
				Deadline:  dl,
			})
		}
		return out
	})
	cov := total.Coverage()
	cov["per_system"] = per
	cov["key_pairs_checked"] = evals
	cov["distinct_key_pairs"] = distinct / int64(len(Drivers))
	cov["key_pairs_diverging"] = coll
	cov["bulk_keys"] = bulkKeys
	cov["bulk_calls"] = bulkOps
	cov["bulk_divergences"] = bulkDiv
	cov["bulk_rule"] = "part 1b: every key whose components are all strings of length 1..2 (hash-only: 1..3; thorough 1..4 and hash 1..3 x range 1..2) over the characters a . \\ % | / : # is written into one table with its own number; every key is read back, the table scanned and counted; every second key deleted; everything read again"
	cov["evaluations"] = evals + total.Transitions + bulkOps
	cov["distinct_nontrivial"] = distinct/int64(len(Drivers)) + total.States
	cov["rule"] = "part 1: every ordered pair of distinct keys over the component alphabets (strings containing the internal separator '.', numbers, binaries) on HR(S,S), HR(S,N), HR(B,S), H(S): put both, get both, scan, describe, delete one, get the other, scan - compared step by step with the reference model; part 2 (E1): all histories over writes, key-changing updates (SET/REMOVE/ADD/DELETE on key attributes) and every request kind with every key malformation"
	cov["samples"] = append(cov["samples"].([]interface{}), samples...)
	cov["component_alphabet"] = strings.Join([]string{"a", "b", "a.b", "b.c", "a.", ".", ".b", "a.b.c"}, " ")
	return cov
}
