package checks

import (
	"fmt"
	"strings"
	"sync/atomic"

	"verif/drv"
	"verif/ev"
	"verif/mc"
	"verif/model"
	"verif/val"
)

// walk follows LastEvaluatedKey from the given start key until none is returned. It returns the
// pages, the LastEvaluatedKey after each page, and a problem description ("" if none).
func walk(d drv.Driver, q drv.Op, limit int, esk val.Item, budget int) (pages [][]val.Item, leks []val.Item, problem string) {
	q.Limit = limit
	q.ESK = esk
	for {
		r := d.Do(q)
		if r.Err != "" {
			return pages, leks, "error:" + r.Err
		}
		if len(r.Items) > limit {
			return pages, leks, fmt.Sprintf("page-exceeds-limit")
		}
		if r.Count != len(r.Items) {
			return pages, leks, "count-mismatch"
		}
		pages = append(pages, r.Items)
		leks = append(leks, r.LEK)
		if len(r.LEK) == 0 {
			return pages, leks, ""
		}
		if len(pages) > budget {
			return pages, leks, "no-termination"
		}
		q.ESK = r.LEK
	}
}

func concat(pages [][]val.Item) []val.Item {
	var o []val.Item
	for _, p := range pages {
		o = append(o, p...)
	}
	return o
}

func seqEqual(a, b []val.Item) bool {
	if len(a) != len(b) {
		return false
	}
	for i := range a {
		if a[i].Canon() != b[i].Canon() {
			return false
		}
	}
	return true
}

func seqString(items []val.Item) string {
	s := make([]string, len(items))
	for i, it := range items {
		s[i] = it.CanonText()
	}
	return "[" + strings.Join(s, " ") + "]"
}

func seqDiffKind(got, want []val.Item) string {
	switch {
	case len(got) < len(want):
		return "lost"
	case len(got) > len(want):
		return "duplicated-or-extra"
	}
	if sameSet(got, want) {
		return "reordered"
	}
	return "different"
}

func sameSet(a, b []val.Item) bool {
	m := map[string]int{}
	for _, x := range a {
		m[x.Canon()]++
	}
	for _, x := range b {
		m[x.Canon()]--
	}
	for _, n := range m {
		if n != 0 {
			return false
		}
	}
	return true
}

func qKind(q drv.Op) string {
	k := q.K + "|" + idxKind(q.Index)
	if q.Reverse {
		k += "|rev"
	}
	if q.Filter != nil {
		k += "|filtered"
	}
	return k
}

// C04: paginating with any Limit yields the same result as one unpaginated read.
func C04(run *ev.Run, tier string) map[string]interface{} {
	thorough := tier == "thorough"
	dl := deadline(tier)
	var walks, pagesN, boundaryWalks int64
	total, per := exploreBoth(run, func(newImpl func() drv.Driver, dn string) []mc.Sys {
		var out []mc.Sys
		for _, c := range queryConfigs(thorough) {
			c := c
			menu := queryMenu(c, !thorough)
			boundaryMenu := queryMenu(c, true)
			out = append(out, mc.Sys{
				Name:     "C04/" + c.name,
				NewImpl:  newImpl,
				Init:     []drv.Op{{K: drv.KCreate, Table: "tab", Cfg: &c.cfg}},
				Alphabet: universeAlphabet(c),
				Observe:  func(m *model.Model) []drv.Op { return nil },
				SigOf:    mc.DefaultSig("C04"),
				OnNewState: func(sc mc.StateCtx) []mc.Extra {
					var xs []mc.Extra
					seen := map[string]bool{}
					report := func(sig, detail string, q drv.Op) {
						if !seen[sig] {
							seen[sig] = true
							xs = append(xs, mc.Extra{Sig: sig, Detail: detail, Op: q})
						}
					}
					nitems := len(sc.Model.Tables["tab"].Items)
					budget := nitems + 2
					// pass 1: every Limit, no intervening writes
					for _, q := range menu {
						un := sc.Impl.Do(q)
						if un.Err != "" {
							continue // not a pagination matter (C02/C06 report failing queries)
						}
						if len(un.LEK) != 0 {
							report(fmt.Sprintf("C04|%s|unpaginated-read-returns-LastEvaluatedKey", qKind(q)), q.String(), q)
							continue
						}
						for limit := 1; limit <= len(un.Items)+1; limit++ {
							pages, _, problem := walk(sc.Impl, q, limit, nil, budget)
							atomic.AddInt64(&walks, 1)
							atomic.AddInt64(&pagesN, int64(len(pages)))
							if problem != "" {
								report(fmt.Sprintf("C04|%s|%s", qKind(q), problem), fmt.Sprintf("%s limit=%d", q.String(), limit), q)
								continue
							}
							got := concat(pages)
							if !seqEqual(got, un.Items) {
								report(fmt.Sprintf("C04|%s|pages-differ-from-unpaginated|%s", qKind(q), seqDiffKind(got, un.Items)),
									fmt.Sprintf("%s limit=%d: unpaginated %s, pages %s", q.String(), limit, seqString(un.Items), seqString(got)), q)
							}
						}
					}
					// pass 2: delete the boundary item between two pages, then resume
					for _, q := range boundaryMenu {
						un := sc.Impl.Do(q)
						if un.Err != "" || len(un.LEK) != 0 {
							continue
						}
						maxLimit := len(un.Items)
						if maxLimit > 3 && !thorough {
							maxLimit = 3
						}
						for limit := 1; limit <= maxLimit; limit++ {
							_, leks, problem := walk(sc.Impl, q, limit, nil, budget)
							if problem != "" {
								continue
							}
							for b := 0; b < len(leks)-1; b++ {
								impl := sc.Rebuild()
								pages, lk, problem := walkN(impl, q, limit, b+1)
								if problem != "" || len(lk) == 0 {
									report(fmt.Sprintf("C04|%s|replay-diverged", qKind(q)), q.String(), q)
									continue
								}
								returned := len(concat(pages))
								// delete the item named by the LastEvaluatedKey
								cfg := sc.Model.Tables["tab"].Cfg
								key := val.Item{cfg.Hash: lk[cfg.Hash]}
								if cfg.Range != "" {
									key[cfg.Range] = lk[cfg.Range]
								}
								if r := impl.Do(drv.Op{K: drv.KDel, Table: "tab", Key: key}); r.Err != "" {
									report(fmt.Sprintf("C04|%s|boundary-delete-failed|%s", qKind(q), r.Err), q.String()+" lek="+lk.CanonText(), q)
									continue
								}
								rest, _, problem := walk(impl, q, limit, lk, budget)
								atomic.AddInt64(&boundaryWalks, 1)
								if problem != "" {
									report(fmt.Sprintf("C04|%s|after-boundary-deletion|%s", qKind(q), problem), fmt.Sprintf("%s limit=%d boundary=%s", q.String(), limit, lk.CanonText()), q)
									continue
								}
								want := un.Items[returned:]
								got := concat(rest)
								if !seqEqual(got, want) {
									report(fmt.Sprintf("C04|%s|after-boundary-deletion|%s", qKind(q), seqDiffKind(got, want)),
										fmt.Sprintf("%s limit=%d: deleted boundary item %s after %d returned items; remaining expected %s, got %s", q.String(), limit, lk.CanonText(), returned, seqString(want), seqString(got)), q)
								}
							}
						}
					}
					return xs
				},
				MaxStates: 100000,
				Deadline:  dl,
			})
		}
		return out
	})
	cov := total.Coverage()
	cov["per_system"] = per
	cov["pagination_walks"] = walks
	cov["pages_fetched"] = pagesN
	cov["boundary_deletion_walks"] = boundaryWalks
	cov["alphabet"] = "the state space and query menu of C02 (quick: reduced menu); for every query every Limit from 1 to |result|+1, following LastEvaluatedKey to the end (page budget = items+2: exceeding it is a violation); second pass on the reduced menu: at every page boundary of every walk, the item named by LastEvaluatedKey is deleted on a freshly rebuilt client and the walk resumed"
	cov["oracle"] = "concatenation of the pages = the item sequence the same request returns without Limit on the same client (exact sequence), every page at most Limit items, Count = len(Items); after the boundary deletion the resumed pages return exactly the not yet returned part of that sequence"
	return cov
}

// walkN fetches exactly n pages (or fewer if the result ends) and returns them with the last
// LastEvaluatedKey.
func walkN(d drv.Driver, q drv.Op, limit, n int) ([][]val.Item, val.Item, string) {
	q.Limit = limit
	var pages [][]val.Item
	var lek val.Item
	for i := 0; i < n; i++ {
		r := d.Do(q)
		if r.Err != "" {
			return pages, nil, "error:" + r.Err
		}
		pages = append(pages, r.Items)
		lek = r.LEK
		if len(lek) == 0 {
			return pages, nil, ""
		}
		q.ESK = lek
	}
	return pages, lek, ""
}
