package checks

import (
	"strings"
	"verif/drv"
	"verif/ev"
	"verif/mc"
	"verif/model"
	"verif/rx"
	"verif/val"
)

func init() { Registry["C08"] = C08 }

func sp(s string) *string { return &s }

// c08Failing is the menu of requests that must fail (the fault sequence of C08: the library has
// no other failure source). Every one is predicted by the model to be rejected without effect.
func c08Failing(keys []val.Item, thorough, twoIdx bool) []drv.Op {
	var ops []drv.Op
	add := func(tag string, o drv.Op) {
		o.Tag = "FAIL:" + tag
		if o.Table == "" {
			o.Table = "tab"
		}
		ops = append(ops, o)
	}
	sv := map[string]val.V{":v": val.S("z")}
	for _, k := range keys {
		kn := k["h"].S
		// malformed keys
		add("Put(missing key)", drv.Op{K: drv.KPut, Item: val.Item{"a": val.S("v"), "g": val.S("x")}})
		add("Put(wrong-typed key)", drv.Op{K: drv.KPut, Item: val.Item{"h": val.N("1"), "a": val.S(kn)}})
		add("Get(missing key)", drv.Op{K: drv.KGet, Key: val.Item{"x": val.S(kn)}})
		add("Get(wrong-typed key)", drv.Op{K: drv.KGet, Key: val.Item{"h": val.N("1")}})
		add("Upd(missing key)", drv.Op{K: drv.KUpd, Key: val.Item{"x": val.S(kn)}, Upd: rx.U(rx.Set("a", rx.RV(":v"))), Values: sv})
		add("Upd(wrong-typed key)", drv.Op{K: drv.KUpd, Key: val.Item{"h": val.Bool(true)}, Upd: rx.U(rx.Set("a", rx.RV(":v"))), Values: sv})
		add("Del(missing key)", drv.Op{K: drv.KDel, Key: val.Item{}})
		add("Del(wrong-typed key)", drv.Op{K: drv.KDel, Key: val.Item{"h": val.N("1")}})
		// unknown table
		add("Put(unknown table)", drv.Op{K: drv.KPut, Table: "nope", Item: with(k, "a", val.S("v"))})
		add("Upd(unknown table)", drv.Op{K: drv.KUpd, Table: "nope", Key: k, Upd: rx.U(rx.Set("a", rx.RV(":v"))), Values: sv})
		add("Del(unknown table)", drv.Op{K: drv.KDel, Table: "nope", Key: k})
		add("Get(unknown table)", drv.Op{K: drv.KGet, Table: "nope", Key: k})
		// placeholders
		add("Put(unused #name)", drv.Op{K: drv.KPut, Item: with(k, "a", val.S("new")), Cond: rx.Exists("h"), Names: map[string]string{"#x": "a"}})
		add("Put(unused :value)", drv.Op{K: drv.KPut, Item: with(k, "a", val.S("new")), Cond: rx.Exists("h"), Values: sv})
		add("Upd(unused :value)", drv.Op{K: drv.KUpd, Key: k, Upd: rx.U(rx.Set("a", rx.RV(":v"))), Values: map[string]val.V{":v": val.S("z"), ":w": val.S("z")}})
		add("Upd(undefined :value)", drv.Op{K: drv.KUpd, Key: k, Upd: rx.U(rx.Set("a", rx.RV(":undef")))})
		add("Upd(undefined #name)", drv.Op{K: drv.KUpd, Key: k, Upd: rx.U(rx.Set("#u", rx.RV(":v"))), Values: sv})
		add("Del(unused #name)", drv.Op{K: drv.KDel, Key: k, Cond: rx.Exists("h"), Names: map[string]string{"#x": "a"}})
		add("Del(unused :value)", drv.Op{K: drv.KDel, Key: k, Cond: rx.Exists("h"), Values: sv})
		add("Del(undefined :value in condition)", drv.Op{K: drv.KDel, Key: k, Cond: rx.Eq("a", ":undef")})
		// a ReturnValues setting that PutItem / DeleteItem do not accept (judged only if the
		// implementation rejects it: rejected means nothing was written or deleted)
		for _, rv := range []string{"ALL_NEW", "UPDATED_OLD", "UPDATED_NEW", "BOGUS"} {
			add("Put(ReturnValues "+rv+")", drv.Op{K: drv.KPut, Item: with(k, "a", val.S("rv"), "g", val.S("y")), RetVals: rv})
			add("Del(ReturnValues "+rv+")", drv.Op{K: drv.KDel, Key: k, RetVals: rv})
		}
		// syntax errors
		add("Put(condition syntax error)", drv.Op{K: drv.KPut, Item: with(k, "a", val.S("new")), CondStr: sp("a = = :v"), Values: sv})
		add("Del(condition syntax error)", drv.Op{K: drv.KDel, Key: k, CondStr: sp("attribute_exists(h")})
		add("Upd(update syntax error)", drv.Op{K: drv.KUpd, Key: k, UpdStr: sp("SET a = ")})
		add("Upd(update syntax error 2)", drv.Op{K: drv.KUpd, Key: k, UpdStr: sp("SET a :v"), Values: sv})
		add("Upd(condition syntax error)", drv.Op{K: drv.KUpd, Key: k, Upd: rx.U(rx.Set("a", rx.RV(":v"))), CondStr: sp("a = AND"), Values: sv})
		// ill-typed operands
		add("Upd(SET a = a + :s)", drv.Op{K: drv.KUpd, Key: k, Upd: rx.U(rx.Set("a", rx.RPlus(rx.RP("a"), rx.RV(":v")))), Values: sv})
		add("Upd(SET n = missing + :one)", drv.Op{K: drv.KUpd, Key: k, Upd: rx.U(rx.Set("n", rx.RPlus(rx.RP("absnt"), rx.RV(":one")))), Values: map[string]val.V{":one": val.N("1")}})
		add("Upd(ADD a :ss on string)", drv.Op{K: drv.KUpd, Key: with(k), Upd: rx.U(rx.Set("a", rx.RV(":v")), rx.Add("h", ":ss")), Values: map[string]val.V{":v": val.S("z"), ":ss": val.SS("q")}})
		add("Upd(two actions, second fails)", drv.Op{K: drv.KUpd, Key: k, Upd: rx.U(rx.Set("a", rx.RV(":v")), rx.Set("b", rx.RP("absnt"))), Values: sv})
		add("Upd(list_append on string)", drv.Op{K: drv.KUpd, Key: k, Upd: rx.U(rx.Set("a", rx.RAppend(rx.RP("h"), rx.RV(":l")))), Values: map[string]val.V{":l": val.L(val.S("e"))}})
		// failed condition
		add("Put(condition false)", drv.Op{K: drv.KPut, Item: with(k, "a", val.S("new"), "g", val.S("y")), Cond: rx.Eq("a", ":v"), Values: map[string]val.V{":v": val.S("never")}})
		add("Upd(condition false)", drv.Op{K: drv.KUpd, Key: k, Upd: rx.U(rx.Set("a", rx.RV(":w")), rx.Set("g", rx.RV(":w"))), Cond: rx.Eq("a", ":v"), Values: map[string]val.V{":v": val.S("never"), ":w": val.S("w")}})
		add("Del(condition false)", drv.Op{K: drv.KDel, Key: k, Cond: rx.Eq("a", ":v"), Values: map[string]val.V{":v": val.S("never")}})
		// index key type mismatch: the failure arises after the base-table step
		add("Put(index key wrong type)", drv.Op{K: drv.KPut, Item: with(k, "g", val.N("5"), "a", val.S("bad"))})
		add("Upd(SET index key to wrong type)", drv.Op{K: drv.KUpd, Key: k, Upd: rx.U(rx.Set("g", rx.RV(":n")), rx.Set("a", rx.RV(":v"))), Values: map[string]val.V{":n": val.N("5"), ":v": val.S("bad")}})
		add("Upd(SET and REMOVE nested members, SET index key to wrong type)", drv.Op{K: drv.KUpd, Key: k, Upd: rx.U(rx.Set("m.x", rx.RV(":v")), rx.Set("g", rx.RV(":n")), rx.Remove("m.note")), Values: map[string]val.V{":n": val.N("5"), ":v": val.S("bad")}})
		if twoIdx {
			// two indexes: the item is ill-typed for one of them and well-typed for the other
			add("Put(second index key wrong type)", drv.Op{K: drv.KPut, Item: with(k, "g", val.S("x"), "a", val.N("5"))})
			add("Upd(SET second index key to wrong type)", drv.Op{K: drv.KUpd, Key: k, Upd: rx.U(rx.Set("a", rx.RV(":n")), rx.Set("g", rx.RV(":v"))), Values: map[string]val.V{":n": val.N("5"), ":v": val.S("y")}})
			add("Upd(SET first index key to wrong type, REMOVE second)", drv.Op{K: drv.KUpd, Key: k, Upd: rx.U(rx.Set("g", rx.RV(":n")), rx.Remove("a")), Values: map[string]val.V{":n": val.N("5")}})
		}
		// key-changing update
		add("Upd(SET h)", drv.Op{K: drv.KUpd, Key: k, Upd: rx.U(rx.Set("h", rx.RV(":v"))), Values: sv})
		add("Upd(REMOVE h)", drv.Op{K: drv.KUpd, Key: k, Upd: rx.U(rx.Remove("h"))})
		// batches with one invalid request
		other := keys[0]
		if kn == other["h"].S {
			other = keys[1]
		}
		add("BatchWrite(valid put, then put without key)", drv.Op{K: drv.KBatchWrite, Batch: []drv.BWReq{{Table: "tab", Put: with(k, "a", val.S("batch"))}, {Table: "tab", Put: val.Item{"a": val.S("nokey")}}}})
		add("BatchWrite(put without key, then valid put)", drv.Op{K: drv.KBatchWrite, Batch: []drv.BWReq{{Table: "tab", Put: val.Item{"a": val.S("nokey")}}, {Table: "tab", Put: with(k, "a", val.S("batch"))}}})
		add("BatchWrite(valid delete, then delete with wrong-typed key)", drv.Op{K: drv.KBatchWrite, Batch: []drv.BWReq{{Table: "tab", Del: k}, {Table: "tab", Del: val.Item{"h": val.N("1")}}}})
		add("BatchWrite(valid put, then put with wrong-typed index key)", drv.Op{K: drv.KBatchWrite, Batch: []drv.BWReq{{Table: "tab", Put: with(other, "a", val.S("batch"))}, {Table: "tab", Put: with(k, "g", val.N("5"))}}})
		add("BatchWrite(valid put, put without key, valid put)", drv.Op{K: drv.KBatchWrite, Batch: []drv.BWReq{{Table: "tab", Put: with(k, "a", val.S("batch"))}, {Table: "tab", Put: val.Item{"a": val.S("nokey")}}, {Table: "tab", Put: with(other, "a", val.S("batch"))}}})
		add("BatchWrite(valid delete, put with wrong-typed index key, valid put)", drv.Op{K: drv.KBatchWrite, Batch: []drv.BWReq{{Table: "tab", Del: other}, {Table: "tab", Put: with(k, "g", val.N("5"))}, {Table: "tab", Put: with(other, "a", val.S("batch"))}}})
		// a batch over two tables with the invalid request in one of them (whichever table the
		// implementation looks at first, nothing is written to the other)
		add("BatchWrite(valid put on tab, put without key on tb2)", drv.Op{K: drv.KBatchWrite, Batch: []drv.BWReq{{Table: "tab", Put: with(other, "a", val.S("batch"))}, {Table: "tb2", Put: val.Item{"a": val.S("nokey")}}}})
		add("BatchWrite(put without key on tab, valid put on tb2)", drv.Op{K: drv.KBatchWrite, Batch: []drv.BWReq{{Table: "tab", Put: val.Item{"a": val.S("nokey")}}, {Table: "tb2", Put: with(k, "a", val.S("batch"))}}})
		add("BatchWrite(put and delete in one request)", drv.Op{K: drv.KBatchWrite, Batch: []drv.BWReq{{Table: "tab", Put: with(other, "a", val.S("batch"))}, {Table: "tab", Put: with(k), Del: k, Both: true}}})
	}
	add("Query(unknown table)", drv.Op{K: drv.KQuery, Table: "nope", KeyCond: rx.Eq("h", ":v"), Values: sv})
	add("Scan(unknown table)", drv.Op{K: drv.KScan, Table: "nope"})
	add("Scan(unused :value)", drv.Op{K: drv.KScan, Filter: rx.Exists("h"), Values: sv})
	add("Query(unused #name)", drv.Op{K: drv.KQuery, KeyCond: rx.Eq("h", ":v"), Values: sv, Names: map[string]string{"#x": "a"}})
	add("Scan(filter syntax error)", drv.Op{K: drv.KScan, FiltStr: sp("a = ")})
	add("Query(key condition syntax error)", drv.Op{K: drv.KQuery, KeyStr: sp("h = :v AND"), Values: sv})
	add("UpdateTable(delete unknown index)", drv.Op{K: drv.KDeleteGSI, Index: "nosuchindex"})
	add("UpdateTable(delete unknown index, redefining g as N)", drv.Op{K: drv.KDeleteGSI, Index: "nosuchindex", IdxCfg: &drv.IndexCfg{Hash: "g", HashT: "N"}})
	add("UpdateTable(create gsz, then delete unknown index)", drv.Op{K: drv.KUpdateTbl, Changes: []drv.IdxChange{{Create: &drv.IndexCfg{Name: "gsz", Hash: "a", HashT: "S"}}, {Delete: "nosuchindex"}}})
	add("UpdateTable(delete gsi, then delete unknown index)", drv.Op{K: drv.KUpdateTbl, Changes: []drv.IdxChange{{Delete: "gsi"}, {Delete: "nosuchindex"}}})
	add("UpdateTable(unknown table)", drv.Op{K: drv.KDeleteGSI, Table: "nope", Index: "gsi"})
	add("DescribeTable(unknown table)", drv.Op{K: drv.KDescribe, Table: "nope"})
	add("CreateTable(existing)", drv.Op{K: drv.KCreate, Cfg: &drv.TableCfg{Hash: "x", HashT: "S", Billing: "PAY_PER_REQUEST"}})
	add("CreateTable(no throughput, provisioned)", drv.Op{K: drv.KCreate, Table: "other", Cfg: &drv.TableCfg{Hash: "x", HashT: "S", Billing: "PROVISIONED"}})
	add("DeleteTable(unknown table)", drv.Op{K: drv.KDeleteTbl, Table: "nope"})
	add("ClearTable(unknown table)", drv.Op{K: drv.KClear, Table: "nope"})
	return ops
}

// C08: a request that fails leaves no trace.
func C08(run *ev.Run, tier string) map[string]interface{} {
	thorough := tier == "thorough"
	dl := deadline(tier)
	keys := []val.Item{hKey("k1"), hKey("k2")}
	if thorough {
		keys = append(keys, hKey("k3"))
	}
	cfg := c03cfg{name: "GSI-hash", cfg: drv.TableCfg{Hash: "h", HashT: "S", Billing: "PAY_PER_REQUEST", GSI: []drv.IndexCfg{{Name: "gsi", Hash: "g", HashT: "S"}}}, keys: keys, clearOp: false}
	cfg2 := c03cfg{name: "two-GSI", cfg: drv.TableCfg{Hash: "h", HashT: "S", Billing: "PAY_PER_REQUEST", GSI: []drv.IndexCfg{{Name: "gsi", Hash: "g", HashT: "S"}, {Name: "gsi2", Hash: "a", HashT: "S"}}}, keys: keys, clearOp: false}
	// an index created after items that are ill-typed for it were stored (they stay out of it):
	// every later write to such an item is rejected, and must be rejected without effect
	cfg3 := c03cfg{name: "late-GSI", cfg: drv.TableCfg{Hash: "h", HashT: "S", Billing: "PAY_PER_REQUEST", GSI: []drv.IndexCfg{{Name: "gsi", Hash: "g", HashT: "S"}}}, keys: keys[:2], gsi2: true}
	u := Universe{Keys: map[string][]val.Item{"tab": keys, "tb2": keys[:1], "other": {}}}
	failCount := 0
	total, per := exploreBoth(run, func(newImpl func() drv.Driver, dn string) []mc.Sys {
		var out []mc.Sys
		for i, cfg := range []c03cfg{cfg, cfg2, cfg3} {
			cfg := cfg
			writes := c03Alphabet(cfg)
			failing := c08Failing(keys, thorough, i == 1)
			failCount = len(failing)
			if i == 2 {
				// no failing menu here: the writes themselves fail or succeed depending on the state
				failing = nil
				base := writes
				writes = func(m *model.Model) []drv.Op {
					ops := base(m)
					for _, k := range cfg.keys {
						ops = append(ops, drv.Op{K: drv.KPut, Tag: "Put(a is a number)", Table: "tab", Item: with(k, "a", val.N("5"))})
						ops = append(ops, drv.Op{K: drv.KUpd, Tag: "Upd(SET b)", Table: "tab", Key: k, Upd: rx.U(rx.Set("b", rx.RV(":v"))), Values: map[string]val.V{":v": val.S("b")}})
					}
					return ops
				}
			}
			out = append(out, mc.Sys{
				Name:    "C08/" + cfg.name,
				NewImpl: newImpl,
				Init:    []drv.Op{{K: drv.KCreate, Table: "tab", Cfg: &cfg.cfg}, {K: drv.KCreate, Table: "tb2", Cfg: &drv.TableCfg{Hash: "h", HashT: "S", Billing: "PAY_PER_REQUEST"}}},
				Alphabet: func(m *model.Model) []drv.Op {
					ops := append([]drv.Op{}, writes(m)...)
					for _, f := range failing {
						if dn == "v1" && f.K == drv.KQuery && f.KeyStr == nil && f.KeyCond == nil {
							continue
						}
						ops = append(ops, f)
					}
					return ops
				},
				Observe: func(m *model.Model) []drv.Op { return ObserveOps(m, u) },
				// C08 speaks about calls that fail: a menu request the implementation accepts is not
				// this property's business (strictness is C09/C13/C16's)
				Skip:      func(op drv.Op, got drv.Resp) bool { return strings.HasPrefix(op.Tag, "FAIL:") && got.Err == "" },
				SigOf:     mc.DefaultSig("C08"),
				MaxStates: 500000,
				Deadline:  dl,
			})
		}
		return out
	})
	cov := total.Coverage()
	cov["per_system"] = per
	cov["failing_request_kinds"] = failCount
	cov["alphabet"] = "index-affecting writes of C03 (one system with a GSI on g:S, one with two GSIs on g:S and a:S where an item can be ill-typed for either index, one where a GSI on a:S is created and deleted around items whose a is a number) that build every reachable state, plus in every state the menu of failing requests: malformed / ill-typed keys for Get/Put/Upd/Del, unknown table, unused and undefined placeholders, syntax errors in condition/update/filter/key condition, ill-typed operands, failed conditions, index-key type mismatch on Put and Upd, key-changing updates, batches with one invalid request, failing table-management calls"
	cov["oracle"] = "the model predicts rejection and no change: the response must be an error (or the documented syntax-error panic) and the full observation after the call must equal the model; the successor state is expanded like any other so that latent corruption shows up in later histories"
	return cov
}
