package checks

import (
	"verif/drv"
	"verif/ev"
	"verif/mc"
	"verif/model"
	"verif/rx"
	"verif/val"
)

func init() { Registry["C05"] = C05 }

type namedCond struct {
	name   string
	c      *rx.Cond
	values map[string]val.V
	names  map[string]string
}

func c05Conds(thorough bool) []namedCond {
	one := map[string]val.V{":one": val.N("1")}
	cs := []namedCond{
		{"attribute_exists(h)", rx.Exists("h"), nil, nil},
		{"attribute_not_exists(h)", rx.NotExists("h"), nil, nil},
		{"a=:one", rx.Eq("a", ":one"), one, nil},
		{"a<>:one", rx.Cmp("<>", rx.OpP("a"), rx.OpV(":one")), one, nil},
		{"a=:one AND attribute_exists(b)", rx.And(rx.Eq("a", ":one"), rx.Exists("b")), one, nil},
		{"NOT a=:one", rx.Not(rx.Eq("a", ":one")), one, nil},
		// two name placeholders in one condition (every supplied name must reach the evaluation)
		{"#p=:one AND attribute_exists(#q)", rx.And(rx.Eq("#p", ":one"), rx.Exists("#q")), one, map[string]string{"#p": "a", "#q": "b"}},
	}
	if thorough {
		cs = append(cs,
			namedCond{"a>:one OR attribute_not_exists(a)", rx.Or(rx.Cmp(">", rx.OpP("a"), rx.OpV(":one")), rx.NotExists("a")), one, nil},
			namedCond{"attribute_exists(b) AND NOT a=:one", rx.And(rx.Exists("b"), rx.Not(rx.Eq("a", ":one"))), one, nil},
		)
	}
	return cs
}

func mergeVals(ms ...map[string]val.V) map[string]val.V {
	o := map[string]val.V{}
	for _, m := range ms {
		for k, v := range m {
			o[k] = v
		}
	}
	if len(o) == 0 {
		return nil
	}
	return o
}

func c05Alphabet(keys []val.Item, conds []namedCond, withRet bool) func(m *model.Model) []drv.Op {
	return func(m *model.Model) []drv.Op {
		var ops []drv.Op
		add := func(tag string, o drv.Op) {
			o.Tag = tag
			o.Table = "tab"
			ops = append(ops, o)
		}
		v1 := func(k val.Item) val.Item { return with(k, "a", val.N("1"), "g", val.S("x")) }
		v2 := func(k val.Item) val.Item { return with(k, "a", val.N("2"), "b", val.S("y"), "g", val.S("y")) }
		for _, k := range keys {
			// unconditional set-up operations
			add("Put", drv.Op{K: drv.KPut, Item: v1(k)})
			add("Put", drv.Op{K: drv.KPut, Item: v2(k)})
			add("Del", drv.Op{K: drv.KDel, Key: k})
		}
		rets := []bool{false}
		if withRet {
			rets = append(rets, true)
		}
		for _, k := range keys {
			for _, c := range conds {
				for _, ret := range rets {
					sfx := "[" + c.name + "]"
					if ret {
						sfx += "[ALL_OLD on failure]"
					}
					add("Put"+sfx, drv.Op{K: drv.KPut, Item: with(k, "a", val.N("1"), "g", val.S("y")), Cond: c.c, Values: c.values, Names: c.names, RetOnFail: ret})
					add("Upd"+sfx, drv.Op{K: drv.KUpd, Key: k, Upd: rx.U(rx.Set("b", rx.RV(":y"))), Cond: c.c, Values: mergeVals(c.values, map[string]val.V{":y": val.S("y")}), Names: c.names, RetOnFail: ret})
					add("Del"+sfx, drv.Op{K: drv.KDel, Key: k, Cond: c.c, Values: c.values, Names: c.names, RetOnFail: ret, AllOld: true})
					if ret {
						// the two return options are independent request fields
						add("Del"+sfx+"[ReturnValues NONE]", drv.Op{K: drv.KDel, Key: k, Cond: c.c, Values: c.values, Names: c.names, RetOnFail: true})
					}
				}
			}
		}
		return ops
	}
}

// C05: conditional writes are decided on the target item only, atomically.
func C05(run *ev.Run, tier string) map[string]interface{} {
	thorough := tier == "thorough"
	dl := deadline(tier)
	keys := []val.Item{hKey("t"), hKey("b1")}
	if thorough {
		keys = append(keys, hKey("b2"))
	}
	conds := c05Conds(thorough)
	gsi := []drv.IndexCfg{{Name: "gsi", Hash: "g", HashT: "S"}}
	type sys struct {
		name string
		cfg  drv.TableCfg
		keys []val.Item
	}
	// besides string keys: number sort keys that are neighbours beyond float64's 53 bits and composite
	// keys sharing the partition (the bystander is as close to the target as a key can be). No
	// number HASH key: the observation queries every partition with `h = :hv`, which the interpreter
	// evaluates in float64 (C12's recorded finding, not a matter of this property)
	systems := []sys{
		{"C05", drv.TableCfg{Hash: "h", HashT: "S", Billing: "PAY_PER_REQUEST", GSI: gsi}, keys},
		{"C05/HR(S,N)", drv.TableCfg{Hash: "h", HashT: "S", Range: "r", RangeT: "N", Billing: "PAY_PER_REQUEST", GSI: gsi}, []val.Item{{"h": val.S("p"), "r": val.N("1234567890123456789")}, {"h": val.S("p"), "r": val.N("1234567890123456788")}}},
		{"C05/HR(S,S)", drv.TableCfg{Hash: "h", HashT: "S", Range: "r", RangeT: "S", Billing: "PAY_PER_REQUEST", GSI: gsi}, []val.Item{hrKey("p\\", "x.y"), hrKey("p.x", "y")}},
	}
	total, per := exploreBoth(run, func(newImpl func() drv.Driver, dn string) []mc.Sys {
		var out []mc.Sys
		for _, sy := range systems {
			sy := sy
			u := Universe{Keys: map[string][]val.Item{"tab": sy.keys}}
			out = append(out, mc.Sys{
				Name:      sy.name,
				NewImpl:   newImpl,
				Init:      []drv.Op{{K: drv.KCreate, Table: "tab", Cfg: &sy.cfg}},
				Alphabet:  c05Alphabet(sy.keys, conds, dn == "v2"),
				Observe:   func(m *model.Model) []drv.Op { return ObserveOps(m, u) },
				SigOf:     mc.DefaultSig("C05"),
				MaxStates: 500000,
				Deadline:  dl,
			})
		}
		return out
	})
	cov := total.Coverage()
	cov["per_system"] = per
	cov["alphabet"] = "Put/Upd/Del on every key x conditions {attribute_exists(h), attribute_not_exists(h), a=:one, a<>:one, a=:one AND attribute_exists(b), NOT a=:one, ...} x ReturnValuesOnConditionCheckFailure {none, ALL_OLD (SDK v2 only: the v1 request type has no such field)}, plus unconditional Put/Del that build every combination of target and bystander items; one GSI; key schemas H(S) and HR(S,N) with number keys that are neighbours beyond 2^53, HR(S,S) with a hash key ending in a backslash next to keys containing dots"
	cov["oracle"] = "reference evaluation of the condition on the target item only; success iff true; on false: ConditionalCheckFailedException, full observation (table and index) unchanged, carried Item = unchanged target when requested"
	return cov
}
