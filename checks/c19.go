package checks

import (
	"fmt"

	"verif/drv"
	"verif/ev"
	"verif/mc"
	"verif/model"
	"verif/val"
)

func init() { Registry["C19"] = C19 }

type c19slot struct {
	table string
	key   val.Item
}

func c19Alphabet(slots []c19slot, maxBatch int) func(m *model.Model) []drv.Op {
	// every batch write: a subset of 1..maxBatch slots, each with put(v1) | put(v2) | delete
	var batches []drv.Op
	actions := []string{"put1", "put2", "del"}
	var rec func(start int, cur []drv.BWReq, tag string)
	rec = func(start int, cur []drv.BWReq, tag string) {
		if len(cur) > 0 {
			batches = append(batches, drv.Op{K: drv.KBatchWrite, Tag: fmt.Sprintf("BatchWrite(%d)", len(cur)), Batch: append([]drv.BWReq{}, cur...)})
		}
		if len(cur) == maxBatch {
			return
		}
		for i := start; i < len(slots); i++ {
			for _, a := range actions {
				r := drv.BWReq{Table: slots[i].table}
				switch a {
				case "put1":
					r.Put = with(slots[i].key, "a", val.S("one"))
				case "put2":
					r.Put = with(slots[i].key, "b", val.N("2")) // (no attribute a: the item leaves the sparse index on a)
				default:
					r.Del = slots[i].key.Clone()
				}
				rec(i+1, append(cur, r), tag)
			}
		}
	}
	rec(0, nil, "")
	// every batch get over subsets of the slots
	var gets []drv.Op
	for mask := 1; mask < 1<<len(slots); mask++ {
		bg := map[string][]val.Item{}
		n := 0
		for i, s := range slots {
			if mask&(1<<i) != 0 {
				bg[s.table] = append(bg[s.table], s.key.Clone())
				n++
			}
		}
		gets = append(gets, drv.Op{K: drv.KBatchGet, Tag: fmt.Sprintf("BatchGet(%d)", n), BGKeys: bg})
	}
	// service limits
	big := func(n int) drv.Op {
		o := drv.Op{K: drv.KBatchWrite, Tag: fmt.Sprintf("BatchWrite(%d puts)", n)}
		for i := 0; i < n; i++ {
			o.Batch = append(o.Batch, drv.BWReq{Table: slots[0].table, Put: val.Item{"h": val.S(fmt.Sprintf("big%02d", i)), "a": val.S("x")}})
		}
		return o
	}
	return func(m *model.Model) []drv.Op {
		ops := append([]drv.Op{}, batches...)
		ops = append(ops, gets...)
		ops = append(ops, big(25), big(26))
		// single-item writes too, so that states are also reached item by item
		for _, s := range slots {
			ops = append(ops, drv.Op{K: drv.KPut, Tag: "Put", Table: s.table, Item: with(s.key, "a", val.S("one"))})
			ops = append(ops, drv.Op{K: drv.KDel, Tag: "Del", Table: s.table, Key: s.key})
		}
		return ops
	}
}

// C19: batch operations equal their item-by-item decomposition.
func C19(run *ev.Run, tier string) map[string]interface{} {
	thorough := tier == "thorough"
	dl := deadline(tier)
	// (tbb has a hash and a range key: its two slots share the partition value)
	slots := []c19slot{{"tba", hKey("k1")}, {"tba", hKey("k2")}, {"tbb", hrKey("k1", "r1")}}
	maxBatch := 3
	if thorough {
		slots = append(slots, c19slot{"tbb", hrKey("k1", "r2")})
		maxBatch = 4
	}
	slots2 := []c19slot{{"tbb", hrKey("k1", "r1")}, {"tbb", hrKey("k1", "r2")}, {"tba", hKey("k1")}}
	u := Universe{Keys: map[string][]val.Item{}}
	for _, s := range slots {
		u.Keys[s.table] = append(u.Keys[s.table], s.key)
	}
	for i := 0; i < 26; i++ {
		u.Keys["tba"] = append(u.Keys["tba"], hKey(fmt.Sprintf("big%02d", i)))
	}
	for _, s := range slots2 {
		dup := false
		for _, k := range u.Keys[s.table] {
			dup = dup || k.Canon() == s.key.Canon()
		}
		if !dup {
			u.Keys[s.table] = append(u.Keys[s.table], s.key)
		}
	}
	cfg := drv.TableCfg{Hash: "h", HashT: "S", Billing: "PAY_PER_REQUEST", GSI: []drv.IndexCfg{{Name: "gsi", Hash: "a", HashT: "S"}}}
	cfgHR := drv.TableCfg{Hash: "h", HashT: "S", Range: "r", RangeT: "S", Billing: "PAY_PER_REQUEST", GSI: []drv.IndexCfg{{Name: "gsi", Hash: "a", HashT: "S"}}}
	total, per := exploreBoth(run, func(newImpl func() drv.Driver, dn string) []mc.Sys {
		sys2 := mc.Sys{
			Name:      "C19/same-partition",
			NewImpl:   newImpl,
			Init:      []drv.Op{{K: drv.KCreate, Table: "tba", Cfg: &cfg}, {K: drv.KCreate, Table: "tbb", Cfg: &cfgHR}},
			Alphabet:  c19Alphabet(slots2, 2),
			Observe:   func(m *model.Model) []drv.Op { return ObserveOps(m, u) },
			SigOf:     mc.DefaultSig("C19"),
			MaxStates: 200000,
			Deadline:  dl,
		}
		return []mc.Sys{sys2, {
			Name:     "C19",
			NewImpl:  newImpl,
			Init:     []drv.Op{{K: drv.KCreate, Table: "tba", Cfg: &cfg}, {K: drv.KCreate, Table: "tbb", Cfg: &cfgHR}},
			Alphabet: c19Alphabet(slots, maxBatch),
			Observe:  func(m *model.Model) []drv.Op { return ObserveOps(m, u) },
			SigOf:    mc.DefaultSig("C19"),
			Expand: func(m *model.Model, depth int) bool {
				return len(m.Tables["tba"].Items) <= 2 // the 25-item states are checked but not expanded
			},
			MaxStates: 200000,
			Deadline:  dl,
		}}
	})
	dupRuns, dupRejected := c19RepeatedKeys(run)
	cov := total.Coverage()
	cov["per_system"] = per
	cov["repeated_key_batches"] = fmt.Sprintf("%d runs (sizes 13, 16, 20, 25 over 2 and 3 tables, 6 fresh clients each, both SDK clients): a key written several times in one batch ends as its last request says, or the batch is rejected as a whole; rejected: %d", dupRuns, dupRejected)
	cov["alphabet"] = fmt.Sprintf("every BatchWriteItem of 1..%d requests over %d (table,key) slots of two tables (one with a hash and a range key, two slots sharing its partition value) x {put v1, put v2, delete} without duplicate keys, batches of 25 and 26 puts, every BatchGetItem over a non-empty subset of the slots (present and absent keys), single Put/Del", maxBatch, len(slots))
	cov["oracle"] = "reference model applies the batch item by item (the twin of the decomposition): equal full observation afterwards; BatchGet Responses = multiset of the individual GetItem results, absent keys nowhere, UnprocessedKeys empty"
	return cov
}

// c19RepeatedKeys: batches that name one key several times. DynamoDB itself refuses them; an
// implementation that accepts them must apply each table's requests in list order (the
// decomposition is only defined that way), one that refuses them must change nothing. Sizes above
// 12 on purpose: an implementation that reorders requests with an unstable sort shows only there.
func c19RepeatedKeys(run *ev.Run) (runs, rejected int) {
	cfg := drv.TableCfg{Hash: "h", HashT: "S", Billing: "PAY_PER_REQUEST", GSI: []drv.IndexCfg{{Name: "gsi", Hash: "a", HashT: "S"}}}
	tables := []string{"tbc", "tbb", "tba"}
	for _, d := range Drivers {
		for _, n := range []int{13, 16, 20, 25} {
			for _, nt := range []int{2, 3} {
				for round := 0; round < 6; round++ {
					impl := d.New()
					want := map[string]map[string]val.Item{}
					var batch []drv.BWReq
					for i := 0; i < n; i++ {
						t := tables[i%nt]
						k := fmt.Sprintf("k%d", (i/nt)%2+1)
						if want[t] == nil {
							want[t] = map[string]val.Item{}
							impl.Do(drv.Op{K: drv.KCreate, Table: t, Cfg: &cfg})
						}
						if (i/nt)%3 == 2 {
							batch = append(batch, drv.BWReq{Table: t, Del: hKey(k)})
							delete(want[t], k)
						} else {
							it := with(hKey(k), "a", val.N(fmt.Sprint(i)))
							batch = append(batch, drv.BWReq{Table: t, Put: it})
							want[t][k] = it
						}
					}
					r := impl.Do(drv.Op{K: drv.KBatchWrite, Batch: batch})
					runs++
					refused := r.Err == drv.EValidation || r.Err == drv.EInvalidPar
					if refused {
						rejected++
					}
					if r.Err != "" && !refused {
						run.Report(fmt.Sprintf("C19|repeated-keys|BatchWriteItem|class|%s@%s", r.Err, d.Name), fmt.Sprintf("batch of %d requests over %d tables with repeated keys: %s %s", n, nt, r.Err, r.Msg), map[string]interface{}{"driver": d.Name, "batch": batch})
						continue
					}
					for t, ks := range want {
						for _, k := range []string{"k1", "k2"} {
							g := impl.Do(drv.Op{K: drv.KGet, Table: t, Key: hKey(k)})
							exp, ok := ks[k]
							if refused {
								exp, ok = nil, false
							}
							if ok != (len(g.Item) > 0) || ok && !val.ItemEqual(g.Item, exp) {
								run.Report(fmt.Sprintf("C19|repeated-keys|state-differs-from-list-order@%s", d.Name), fmt.Sprintf("batch of %d requests over %d tables: %s/%s is %s, the requests in list order leave %s", n, nt, t, k, g.Item.CanonText(), exp.CanonText()), map[string]interface{}{"driver": d.Name, "batch": batch, "table": t, "key": k})
							}
						}
					}
				}
			}
		}
	}
	return runs, rejected
}
