package checks

import (
	"fmt"
	"strings"
	"sync"

	"verif/drv"
	"verif/ev"
	"verif/itp"
	"verif/rx"
	"verif/val"
)

func init() { Registry["C07"] = C07 }

type c07act struct {
	a    rx.Action
	top  string // top-level attribute the action targets (after alias resolution)
	kind string // short class used in signatures
}

// c07Names is the first binding of the name placeholders; c07Names2 gives the same placeholders
// other meanings (the same expression TEXT then addresses other attributes and members: an
// interpreter that keeps anything per text between calls shows here).
var c07Names = map[string]string{"#a": "a", "#k": "x", "#m": "m"}
var c07Names2 = map[string]string{"#a": "b", "#k": "y", "#m": "u"}

var c07Values = map[string]val.V{
	":s": val.S("str"), ":n": val.N("5"), ":l": val.L(val.S("e1"), val.N("2")), ":m": val.M("k", val.S("v")),
	":ss": val.SS("x", "new"), ":ssall": val.SS("x", "y"), ":ns": val.NS("1", "7"), ":bs": val.BS([]byte{1}, []byte{7}), ":b": val.Bool(true), ":null": val.Null(),
	// values whose printed form equals that of a stored value of another type or shape
	":s10": val.S("10"), ":ssxy": val.SS("x y"),
	// sets whose members are all new / all present (an ADD or DELETE that stops after one member shows)
	":cent": val.N("0.01"), ":ss2": val.SS("n1", "n2"), ":ns2": val.NS("8", "9"), ":bs2": val.BS([]byte{7}, []byte{8}), ":nsall": val.NS("1", "2"), ":bsall": val.BS([]byte{1}, []byte{2}),
}

func c07Item() val.Item {
	return val.Item{
		"a":  val.N("10"),
		"b":  val.S("bee"),
		"m":  val.M("x", val.N("1"), "y", val.S("why")),
		"l":  val.L(val.S("l0"), val.N("11"), val.S("l2")),
		"ss": val.SS("x", "y"),
		"ns": val.NS("1", "2"),
		"bs": val.BS([]byte{1}, []byte{2}),
		"u":  val.M("k", val.L(val.S("deep"), val.M("n", val.N("1.50"))), "e", val.L(), "t", val.Bool(false), "z", val.Null()),
		"d":  val.N("123456789012345"),
		// numbers stored in a valid but not canonical notation (trailing zero, exponent, leading zero)
		"nc": val.N("2.50"),
		"ne": val.N("1E2"),
		// a two-decimal amount whose scaled double lies just below an integer (19.99 * 100)
		"p": val.N("19.99"),
	}
}

func c07Actions(names map[string]string) []c07act {
	var out []c07act
	top := func(p string) string {
		t := p
		if i := strings.IndexAny(t, ".["); i >= 0 {
			t = t[:i]
		}
		if r, ok := names[t]; ok {
			return r
		}
		return t
	}
	targets := []string{"a", "b", "m.x", "m.z", "l[0]", "l[1]", "l[9]", "nw", "#a", "nope.x", "b.x", "b[0]", "u.k[1].n", "ss", "m.#k", "#m.#k"}
	rhss := []struct {
		r    rx.Rhs
		kind string
	}{
		{rx.RV(":s"), "value"}, {rx.RV(":n"), "value"}, {rx.RV(":l"), "value"}, {rx.RV(":m"), "value"}, {rx.RV(":null"), "value"}, {rx.RV(":s10"), "value"}, {rx.RV(":ssxy"), "value"},
		{rx.RP("a"), "path"}, {rx.RP("b"), "path"}, {rx.RP("m.x"), "path"}, {rx.RP("l[0]"), "path"}, {rx.RP("nope"), "path-missing"}, {rx.RP("u"), "path"},
		{rx.RPlus(rx.RP("a"), rx.RV(":n")), "plus"}, {rx.RPlus(rx.RP("nc"), rx.RV(":n")), "plus"}, {rx.RMinus(rx.RP("ne"), rx.RV(":n")), "minus"}, {rx.RP("nc"), "path"}, {rx.RPlus(rx.RP("p"), rx.RV(":cent")), "plus"}, {rx.RPlus(rx.RV(":n"), rx.RP("a")), "plus"}, {rx.RMinus(rx.RP("a"), rx.RV(":n")), "minus"}, {rx.RMinus(rx.RV(":n"), rx.RP("m.x")), "minus"},
		{rx.RPlus(rx.RP("b"), rx.RV(":n")), "plus-mistyped"}, {rx.RPlus(rx.RP("nope"), rx.RV(":n")), "plus-missing"}, {rx.RPlus(rx.RP("a"), rx.RV(":s")), "plus-mistyped"},
		{rx.RIfNE("a", rx.RV(":s")), "if_not_exists"}, {rx.RIfNE("nope", rx.RV(":s")), "if_not_exists"}, {rx.RIfNE("m.x", rx.RV(":n")), "if_not_exists"}, {rx.RIfNE("m.q", rx.RV(":n")), "if_not_exists"},
		{rx.RPlus(rx.RIfNE("nope", rx.RV(":n")), rx.RV(":n")), "if_not_exists+plus"},
		{rx.RAppend(rx.RP("l"), rx.RV(":l")), "list_append"}, {rx.RAppend(rx.RV(":l"), rx.RP("l")), "list_append"}, {rx.RAppend(rx.RP("b"), rx.RV(":l")), "list_append-mistyped"},
		{rx.RAppend(rx.RP("nope"), rx.RV(":l")), "list_append-missing"}, {rx.RAppend(rx.RIfNE("nope", rx.RV(":l")), rx.RV(":l")), "list_append+if_not_exists"},
	}
	for _, t := range targets {
		for _, r := range rhss {
			out = append(out, c07act{rx.Set(t, r.r), top(t), "SET(" + r.kind + ")"})
		}
	}
	for _, t := range []string{"a", "b", "m.x", "m.nokey", "l[0]", "l[1]", "l[2]", "l[9]", "nope", "#a", "u.k", "u.k[0]", "u.k[1]", "u.k[1].n", "u.k[1].nokey", "u.k[9].n", "nope.x", "ss", "m.#k", "#m.#k"} {
		out = append(out, c07act{rx.Remove(t), top(t), "REMOVE"})
	}
	for _, pv := range [][2]string{{"a", ":n"}, {"nc", ":n"}, {"ne", ":n"}, {"p", ":cent"}, {"a", ":s"}, {"nw", ":n"}, {"nw", ":ss"}, {"nw", ":s"}, {"ss", ":ss"}, {"ss", ":ns"}, {"ns", ":ns"}, {"bs", ":bs"}, {"b", ":n"}, {"#a", ":n"}, {"ss", ":s"}, {"ss", ":ss2"}, {"ns", ":ns2"}, {"bs", ":bs2"}, {"nw", ":bs2"}} {
		out = append(out, c07act{rx.Add(pv[0], pv[1]), top(pv[0]), "ADD"})
	}
	for _, pv := range [][2]string{{"ss", ":ss"}, {"ss", ":ssall"}, {"ns", ":ns"}, {"bs", ":bs"}, {"nope", ":ss"}, {"a", ":ss"}, {"ss", ":ns"}, {"b", ":ss"}, {"ns", ":nsall"}, {"bs", ":bsall"}} {
		out = append(out, c07act{rx.Delete(pv[0], pv[1]), top(pv[0]), "DELETE"})
	}
	return out
}

// usedValues returns the subset of the value bindings the update mentions (the client API
// rejects unused ones).
func usedBindings(u *rx.Update, binding map[string]string) (map[string]string, map[string]val.V) {
	ns, vs := map[string]bool{}, map[string]bool{}
	u.Placeholders(ns, vs)
	names := map[string]string{}
	for n := range ns {
		names[n] = binding[n]
	}
	values := map[string]val.V{}
	for v := range vs {
		values[v] = c07Values[v]
	}
	return names, values
}

type c07result struct {
	o    string // T (applied), E (error), P (panic)
	item val.Item
	msg  string
}

func c07Check(run *ev.Run, via string, u *rx.Update, kind string, before val.Item, res c07result, names map[string]string, values map[string]val.V) {
	accepted, ok := u.Apply(before, names, values)
	expr := u.String()
	rep := map[string]interface{}{"via": via, "expression": expr, "item": before, "names": names, "values": values}
	switch {
	case res.o == "P":
		run.Report(fmt.Sprintf("C07|%s|%s|panic", via, kind), fmt.Sprintf("%q on %s: panic %s", expr, before.CanonText(), res.msg), rep)
	case !ok:
		if res.o != "E" {
			// attribute to a recorded finding only when the result is exactly what that finding's
			// defect model predicts
			for _, dm := range []struct {
				name string
				env  rx.Env
			}{
				{"missing-path-stored-as-NULL", rx.Env{MissingAsNull: true}},
				{"lenient-ADD", rx.Env{LenientAdd: true}},
				{"missing-path-stored-as-NULL+lenient-ADD", rx.Env{MissingAsNull: true, LenientAdd: true}},
			} {
				e := dm.env
				e.Item, e.Names, e.Values = before, names, values
				if alt, ok2 := u.ApplyEnv(e); ok2 {
					for _, a := range alt {
						if !val.ItemEqual(a, res.item) && val.ItemEqual(NullifyEmpty(a), res.item) {
							run.Report(fmt.Sprintf("C07|%s|invalid-update-accepted|explained-by-%s+empty-container-returned-as-NULL", via, dm.name), fmt.Sprintf("%q on %s must be rejected; result %s", expr, before.CanonText(), res.item.CanonText()), rep)
							return
						}
						if val.ItemEqual(a, res.item) {
							run.Report(fmt.Sprintf("C07|%s|invalid-update-accepted|explained-by-%s", via, dm.name), fmt.Sprintf("%q on %s must be rejected; result %s", expr, before.CanonText(), res.item.CanonText()), rep)
							return
						}
					}
				}
			}
			run.Report(fmt.Sprintf("C07|%s|%s|invalid-update-accepted", via, kind), fmt.Sprintf("%q on %s must be rejected; result %s", expr, before.CanonText(), res.item.CanonText()), rep)
		} else if !val.ItemEqual(res.item, before) {
			run.Report(fmt.Sprintf("C07|%s|%s|rejected-update-changed-item", via, kind), fmt.Sprintf("%q on %s rejected but item now %s", expr, before.CanonText(), res.item.CanonText()), rep)
		}
	default:
		if res.o == "E" {
			run.Report(fmt.Sprintf("C07|%s|%s|valid-update-rejected", via, kind), fmt.Sprintf("%q on %s: %s", expr, before.CanonText(), res.msg), rep)
			return
		}
		for _, a := range accepted {
			if val.ItemEqual(a, res.item) {
				return
			}
		}
		for _, a := range accepted {
			if val.ItemEqual(NullifyEmpty(a), res.item) {
				// the SDK v2 mapper returns empty containers as NULL (C10's recorded finding)
				run.Report(fmt.Sprintf("C07|%s|wrong-result|explained-by-empty-container-returned-as-NULL", via), fmt.Sprintf("%q on %s: want %s got %s", expr, before.CanonText(), a.CanonText(), res.item.CanonText()), rep)
				return
			}
		}
		run.Report(fmt.Sprintf("C07|%s|%s|wrong-result|%s", via, kind, c07DiffClass(accepted[0], res.item, u, names)), fmt.Sprintf("%q on %s: want %s got %s", expr, before.CanonText(), accepted[0].CanonText(), res.item.CanonText()), rep)
	}
}

// c07DiffClass says whether the difference is in a targeted attribute or in the frame.
func c07DiffClass(want, got val.Item, u *rx.Update, names map[string]string) string {
	targeted := map[string]bool{}
	for _, a := range u.Actions {
		n := a.Path[0].Name
		if r, ok := names[n]; ok {
			n = r
		}
		targeted[n] = true
	}
	frame, target := false, false
	keys := map[string]bool{}
	for k := range want {
		keys[k] = true
	}
	for k := range got {
		keys[k] = true
	}
	for k := range keys {
		w, okw := want[k]
		g, okg := got[k]
		if okw != okg || (okw && !val.Equal(w, g)) {
			if targeted[k] {
				target = true
			} else {
				frame = true
			}
		}
	}
	switch {
	case frame && target:
		return "target+frame"
	case frame:
		return "frame"
	}
	return "target"
}

func kindOf(acts ...c07act) string {
	ks := make([]string, len(acts))
	for i, a := range acts {
		ks[i] = a.kind
	}
	return strings.Join(ks, "+")
}

// C07: update expressions apply exactly their actions and nothing else.
func C07(run *ev.Run, tier string) map[string]interface{} {
	thorough := tier == "thorough"
	acts := c07Actions(c07Names)
	type prog struct {
		u       *rx.Update
		kind    string
		binding map[string]string
	}
	var progs []prog
	for _, a := range acts {
		progs = append(progs, prog{rx.U(a.a), kindOf(a), c07Names})
	}
	for _, a := range acts {
		for _, b := range acts {
			if a.top == b.top {
				continue // overlapping targets are outside the alphabet
			}
			progs = append(progs, prog{rx.U(a.a, b.a), kindOf(a, b), c07Names})
		}
	}
	// the programs that use name placeholders once more under the second binding of the names
	// (single actions, and pairs with every action on another attribute)
	{
		acts2 := c07Actions(c07Names2)
		usesName := func(a c07act) bool { return strings.Contains(rx.U(a.a).String(), "#") }
		for _, a := range acts2 {
			if !usesName(a) {
				continue
			}
			progs = append(progs, prog{rx.U(a.a), kindOf(a) + "|second-name-binding", c07Names2})
			for _, b := range acts2 {
				if a.top == b.top || usesName(b) {
					continue
				}
				progs = append(progs, prog{rx.U(a.a, b.a), kindOf(a, b) + "|second-name-binding", c07Names2})
				progs = append(progs, prog{rx.U(b.a, a.a), kindOf(b, a) + "|second-name-binding", c07Names2})
			}
		}
	}
	// every ordering of three and of four clauses of different kinds (one representative action each)
	{
		pick := func(kindPrefix, top string) *c07act {
			for i := range acts {
				if strings.HasPrefix(acts[i].kind, kindPrefix) && acts[i].top == top {
					return &acts[i]
				}
			}
			return nil
		}
		reps := []*c07act{pick("SET(value)", "a"), pick("REMOVE", "b"), pick("ADD", "ns"), pick("DELETE", "ss")}
		var perm func(cur []*c07act, used int)
		perm = func(cur []*c07act, used int) {
			if len(cur) >= 3 {
				as := make([]rx.Action, len(cur))
				ks := make([]c07act, len(cur))
				for i, a := range cur {
					as[i], ks[i] = a.a, *a
				}
				progs = append(progs, prog{rx.U(as...), kindOf(ks...) + "|clauses", c07Names})
			}
			for i, r := range reps {
				if r != nil && used&(1<<i) == 0 {
					perm(append(append([]*c07act{}, cur...), r), used|1<<i)
				}
			}
		}
		perm(nil, 0)
	}
	if thorough {
		// three actions over a reduced action set (one representative per kind and target shape)
		var red []c07act
		seen := map[string]bool{}
		for _, a := range acts {
			k := a.kind + "|" + a.top
			if !seen[k] {
				seen[k] = true
				red = append(red, a)
			}
		}
		for _, a := range red {
			for _, b := range red {
				for _, c := range red {
					if a.top == b.top || a.top == c.top || b.top == c.top {
						continue
					}
					progs = append(progs, prog{rx.U(a.a, b.a, c.a), kindOf(a, b, c), c07Names})
				}
			}
		}
	}
	items := []struct {
		name string
		it   val.Item
	}{
		{"full", c07Item()},
		{"key-only", val.Item{"h": val.S("k")}},
	}
	var mu sync.Mutex
	hist := map[string]int{}
	distinct := map[string]bool{}
	var samples []interface{}
	var evals int64
	ch := make(chan func(), 1024)
	var wg sync.WaitGroup
	for w := 0; w < 16; w++ {
		wg.Add(1)
		go func() {
			defer wg.Done()
			for f := range ch {
				f()
			}
		}()
	}
	for _, p := range progs {
		p := p
		for _, it := range items {
			it := it
			ch <- func() {
				names, values := usedBindings(p.u, p.binding)
				expr := p.u.String()
				ev.Breadcrumb("Language.Update " + expr + " on item " + it.name)
				out, after := itp.Update(expr, it.it, names, values)
				res := c07result{o: out.O, item: after, msg: out.Msg}
				mu.Lock()
				evals++
				hist["direct:"+out.O]++
				distinct[expr+"|"+it.name] = true
				if len(samples) < 5 && len(distinct)%1999 == 1 {
					samples = append(samples, map[string]interface{}{"expression": expr, "item": it.it.CanonText(), "outcome": out.O, "result": after.CanonText()})
				}
				mu.Unlock()
				c07Check(run, "Language.Update", p.u, p.kind, it.it, res, names, values)
			}
		}
	}
	// the same single- and two-action programs through the client API (SDK v2 and v1): existing
	// item and absent item (the update creates it from the key)
	// long-lived clients (one pool per SDK adapter): every client-level program runs on a fresh
	// client and once more on a client that has applied every earlier program of its worker; the
	// two must agree
	warmClients := map[string]chan drv.Driver{}
	for _, d := range Drivers {
		warmClients[d.Name] = make(chan drv.Driver, 32)
	}
	var warmRuns int64
	for _, p := range progs {
		if len(p.u.Actions) > 2 || (len(p.u.Actions) == 2 && !thorough && (p.kind != "SET(path)+SET(path)" && !strings.Contains(p.kind, "REMOVE"))) {
			continue
		}
		p := p
		for _, d := range Drivers {
			d := d
			for _, existing := range []bool{true, false} {
				existing := existing
				ch <- func() {
					names, values := usedBindings(p.u, p.binding)
					if len(names) == 0 {
						names = nil
					}
					if len(values) == 0 {
						values = nil
					}
					impl := d.New()
					ev.Breadcrumb(fmt.Sprintf("UpdateItem via %s existing=%v: %s", d.Name, existing, p.u.String()))
					impl.Do(drv.Op{K: drv.KCreate, Table: "tab", Cfg: &drv.TableCfg{Hash: "h", HashT: "S", Billing: "PAY_PER_REQUEST"}})
					before := val.Item{"h": val.S("k")}
					if existing {
						before = with(c07Item(), "h", val.S("k"))
						// empty containers do not survive the SDK v2 mapper (C10's finding): keep them
						// out of the client pass so that C07 judges update semantics only
						u := before["u"].Clone()
						delete(u.M, "e")
						before["u"] = u
						impl.Do(drv.Op{K: drv.KPut, Table: "tab", Item: before})
					}
					r := impl.Do(drv.Op{K: drv.KUpd, Table: "tab", Key: val.Item{"h": val.S("k")}, Upd: p.u, Names: names, Values: values})
					g := impl.Do(drv.Op{K: drv.KGet, Table: "tab", Key: val.Item{"h": val.S("k")}})
					res := c07result{item: g.Item, msg: r.Msg}
					switch {
					case r.Err == "":
						res.o = "T"
						if !val.ItemEqual(r.Item, g.Item) {
							run.Report(fmt.Sprintf("C07|client-%s|%s|returned-item-differs-from-stored", d.Name, p.kind), fmt.Sprintf("%q: returned %s stored %s", p.u.String(), r.Item.CanonText(), g.Item.CanonText()), nil)
						}
					case r.Err == drv.EPanicRT:
						res.o = "P"
					default:
						res.o = "E"
					}
					if !existing && res.o == "E" && len(g.Item) == 0 {
						res.item = before // a rejected update on an absent key creates nothing
					}
					mu.Lock()
					evals++
					hist["client-"+d.Name+":"+res.o]++
					warmRuns++
					mu.Unlock()
					c07Check(run, "client-"+d.Name, p.u, p.kind, before, res, names, values)
					// once more on a long-lived client
					var wc drv.Driver
					select {
					case wc = <-warmClients[d.Name]:
					default:
						wc = d.New()
						wc.Do(drv.Op{K: drv.KCreate, Table: "tab", Cfg: &drv.TableCfg{Hash: "h", HashT: "S", Billing: "PAY_PER_REQUEST"}})
					}
					if existing {
						wc.Do(drv.Op{K: drv.KPut, Table: "tab", Item: before})
					} else {
						wc.Do(drv.Op{K: drv.KDel, Table: "tab", Key: val.Item{"h": val.S("k")}})
					}
					r2 := wc.Do(drv.Op{K: drv.KUpd, Table: "tab", Key: val.Item{"h": val.S("k")}, Upd: p.u, Names: names, Values: values})
					g2 := wc.Do(drv.Op{K: drv.KGet, Table: "tab", Key: val.Item{"h": val.S("k")}})
					if r2.Err != r.Err || !val.ItemEqual(g2.Item, g.Item) {
						run.Report(fmt.Sprintf("C07|client-%s|%s|history-dependent", d.Name, p.kind), fmt.Sprintf("%q names %v: a fresh client answers %s and stores %s; a client that applied other updates before answers %s and stores %s", p.u.String(), names, r.Short(), g.Item.CanonText(), r2.Short(), g2.Item.CanonText()),
							map[string]interface{}{"via": "client-" + d.Name, "expression": p.u.String(), "item": before, "names": names, "values": values})
					}
					if r2.Err != drv.EPanicRT {
						select {
						case warmClients[d.Name] <- wc:
						default:
						}
					}
				}
			}
		}
	}
	close(ch)
	wg.Wait()
	if len(samples) == 0 {
		samples = append(samples, "(none)")
	}
	return map[string]interface{}{
		"evaluations":         evals,
		"distinct_nontrivial": len(distinct),
		"programs":            len(progs),
		"client_programs_repeated_on_a_long_lived_client": warmRuns,
		"single_actions":    len(acts),
		"rule":              "every update program of one action, of two actions on different top-level attributes (all ordered pairs; thorough: three actions over one representative per kind and target) from SET (values, paths, +, -, if_not_exists, list_append, nested and appended targets, aliases), REMOVE, ADD, DELETE; applied to a typed item with nested documents, sets and an untouched frame and to a key-only item, through interpreter.Language.Update and through UpdateItem of both SDK clients on existing and absent keys; a program is distinct by (text, item); programs with name placeholders also under a second binding of the names; every evaluation is repeated on a long-lived interpreter / client that has served the earlier programs and must agree with the fresh one",
		"oracle":            "reference update semantics: right-hand sides read the pre-update item, targets receive the value, REMOVE deletes (list indexes refer to original positions), ADD/DELETE per type, every untargeted attribute structurally identical, invalid programs rejected with the item unchanged; a panic is never accepted",
		"samples":           samples,
		"exhaustive":        true,
		"outcome_histogram": hist,
	}
}

// NullifyEmpty is the defect model "empty B, L, M and sets come back as NULL" (SDK v2 mapper).
func NullifyEmpty(it val.Item) val.Item { return val.NullifyEmpty(it) }
