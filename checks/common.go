// Package checks holds one check per property.
package checks

import (
	"fmt"
	"os"
	"sort"
	"time"

	"verif/drv"
	"verif/ev"
	"verif/mc"
	"verif/model"
	"verif/rx"
	"verif/val"
)

// Check is the entry point of one property check.
type Check func(run *ev.Run, tier string) map[string]interface{}

// Registry maps property ids to checks.
var Registry = map[string]Check{}

// Drivers are the two SDK adapters every client-level check runs against.
var Drivers = []struct {
	Name string
	New  func() drv.Driver
}{
	{"v2", func() drv.Driver { return drv.NewV2() }},
	{"v1", func() drv.Driver { return drv.NewV1() }},
}

// Universe is the set of keys and index-hash values the observation reads.
type Universe struct {
	Keys map[string][]val.Item // table -> every key of the key universe
}

func sortedTables(m *model.Model) []string {
	names := make([]string, 0, len(m.Tables))
	for n := range m.Tables {
		names = append(names, n)
	}
	sort.Strings(names)
	return names
}

func distinctVals(vs []val.V) []val.V {
	seen := map[string]bool{}
	var o []val.V
	for _, v := range vs {
		k := v.Canon()
		if !seen[k] {
			seen[k] = true
			o = append(o, v)
		}
	}
	sort.Slice(o, func(i, j int) bool { return o[i].Canon() < o[j].Canon() })
	return o
}

// ObserveOps builds the full observation of a model state: DescribeTable, GetItem of every key
// of the universe, Scan of the table and of every index, Query of every partition of the table
// and of every index in both directions.
func ObserveOps(m *model.Model, u Universe) []drv.Op {
	var ops []drv.Op
	for _, tn := range sortedTables(m) {
		t := m.Tables[tn]
		ops = append(ops, drv.Op{K: drv.KDescribe, Table: tn})
		var hashVals []val.V
		for _, k := range u.Keys[tn] {
			ops = append(ops, drv.Op{K: drv.KGet, Table: tn, Key: k})
			if v, ok := k[t.Cfg.Hash]; ok && v.T == t.Cfg.HashT {
				hashVals = append(hashVals, v)
			}
		}
		ops = append(ops, drv.Op{K: drv.KScan, Table: tn})
		for _, hv := range distinctVals(hashVals) {
			for _, rev := range []bool{false, true} {
				ops = append(ops, drv.Op{K: drv.KQuery, Table: tn, KeyCond: rx.Eq(t.Cfg.Hash, ":hv"), Values: map[string]val.V{":hv": hv}, Reverse: rev})
			}
		}
		ixNames := make([]string, 0, len(t.Indexes))
		for n := range t.Indexes {
			ixNames = append(ixNames, n)
		}
		sort.Strings(ixNames)
		for _, in := range ixNames {
			ix := t.Indexes[in]
			ops = append(ops, drv.Op{K: drv.KScan, Table: tn, Index: in})
			var hv []val.V
			for _, it := range t.Items {
				if v, ok := it[ix.Hash]; ok && v.T == ix.HashT {
					hv = append(hv, v)
				}
			}
			for _, v := range distinctVals(hv) {
				for _, rev := range []bool{false, true} {
					ops = append(ops, drv.Op{K: drv.KQuery, Table: tn, Index: in, KeyCond: rx.Eq(ix.Hash, ":hv"), Values: map[string]val.V{":hv": v}, Reverse: rev})
				}
			}
		}
	}
	return ops
}

// deadline returns the internal time cap of a tier (a cap ends the run with exhaustive:false).
func deadline(tier string) time.Time {
	d := 4 * time.Minute
	if tier == "thorough" {
		d = 25 * time.Minute
	}
	if v := os.Getenv("VERIF_TIMECAP_S"); v != "" {
		var s int
		fmt.Sscanf(v, "%d", &s)
		d = time.Duration(s) * time.Second
	}
	return time.Now().Add(d)
}

func hKey(h string) val.Item     { return val.Item{"h": val.S(h)} }
func hrKey(h, r string) val.Item { return val.Item{"h": val.S(h), "r": val.S(r)} }
func with(k val.Item, kv ...interface{}) val.Item {
	o := k.Clone()
	for i := 0; i+1 < len(kv); i += 2 {
		o[kv[i].(string)] = kv[i+1].(val.V)
	}
	return o
}

func keyName(k val.Item) string {
	s := k["h"].S
	if r, ok := k["r"]; ok {
		s += "/" + r.S + r.T[:0]
	}
	return s
}

// exploreBoth runs a system against both SDK adapters and merges the statistics.
func exploreBoth(run *ev.Run, mk func(newImpl func() drv.Driver, drvName string) []mc.Sys) (mc.Stats, map[string]interface{}) {
	total := mc.Stats{Exhaustive: true}
	per := map[string]interface{}{}
	for _, d := range Drivers {
		for _, s := range mk(d.New, d.Name) {
			st := mc.Explore(s, run)
			per[d.Name+"/"+s.Name] = map[string]interface{}{"states": st.States, "transitions": st.Transitions, "max_depth": st.MaxDepth, "exhaustive": st.Exhaustive, "cap_hit": st.CapHit}
			total.Merge(st)
		}
	}
	return total, per
}
