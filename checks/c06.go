package checks

import (
	"fmt"
	"sort"
	"strings"
	"sync"
	"sync/atomic"

	"verif/ev"
	"verif/itp"
	"verif/rx"
	"verif/val"
)

func init() { Registry["C06"] = C06 }

// tvals gives, per type, distinct values; orderable types have three in the order mid, low, high.
// The low number is less than one away from the middle one (a comparison through a truncated
// difference would call them equal); the strings and binaries are ordered lexicographically with
// a prefix relation (b < ba) and, for binaries, a byte above 127 (unsigned order).
var tvals = map[string][]val.V{
	"S":    {val.S("b"), val.S("ab"), val.S("ba")},
	"N":    {val.N("2"), val.N("1.5"), val.N("3")},
	"B":    {val.B(2), val.B(1, 255), val.B(2, 0)},
	"BOOL": {val.Bool(true), val.Bool(false)},
	"NULL": {val.Null()},
	"L":    {val.L(val.S("b"), val.N("2")), val.L(val.N("1"))},
	"M":    {val.M("k", val.S("b")), val.M("k", val.N("1"), "j", val.S("q"))},
	"SS":   {val.SS("b", "z"), val.SS("a")},
	"NS":   {val.NS("2", "9"), val.NS("1")},
	"BS":   {val.BS([]byte{2}, []byte{9}), val.BS([]byte{1})},
}

// typesAbsent is the ten types plus absence ("-").
var typesAbsent = append(append([]string{}, val.Types...), "-")

type c06case struct {
	form   string // structural description used in signatures
	cond   *rx.Cond
	item   val.Item
	names  map[string]string
	values map[string]val.V
}

// pathSpec describes how a path operand is written and how the item is built so that the path
// resolves to a value of a given type (or to nothing).
type pathSpec struct {
	name  string
	path  string
	names map[string]string
	build func(v *val.V) val.Item // v == nil: the target is absent
}

func c06Paths() []pathSpec {
	return []pathSpec{
		{"a", "a", nil, func(v *val.V) val.Item {
			it := val.Item{"z": val.S("other")}
			if v != nil {
				it["a"] = *v
			}
			return it
		}},
		{"#a", "#a", map[string]string{"#a": "a"}, func(v *val.V) val.Item {
			it := val.Item{"z": val.S("other")}
			if v != nil {
				it["a"] = *v
			}
			return it
		}},
		{"m.x", "m.x", nil, func(v *val.V) val.Item {
			m := map[string]val.V{"y": val.S("other")}
			if v != nil {
				m["x"] = *v
			}
			return val.Item{"m": val.V{T: "M", M: m}}
		}},
		{"m.#x", "m.#x", map[string]string{"#x": "x"}, func(v *val.V) val.Item {
			m := map[string]val.V{"y": val.S("other")}
			if v != nil {
				m["x"] = *v
			}
			return val.Item{"m": val.V{T: "M", M: m}}
		}},
		// an attribute name made of the boundary characters of the identifier classes
		{"azAZ_09", "azAZ_09", nil, func(v *val.V) val.Item {
			it := val.Item{"az": val.S("decoy"), "azAZ": val.S("decoy")}
			if v != nil {
				it["azAZ_09"] = *v
			}
			return it
		}},
		// a name placeholder stands for one attribute name, dots included: the attribute "d.e" is not
		// the member e of a map d (which the item also holds, with another value)
		{"#d(dotted name)", "#d", map[string]string{"#d": "d.e"}, func(v *val.V) val.Item {
			it := val.Item{"d": val.M("e", val.S("decoy"))}
			if v != nil {
				it["d.e"] = *v
			}
			return it
		}},
		{"m.#k(dotted key)", "m.#k", map[string]string{"#k": "x.y"}, func(v *val.V) val.Item {
			m := map[string]val.V{"x": val.M("y", val.S("decoy"))}
			if v != nil {
				m["x.y"] = *v
			}
			return val.Item{"m": val.V{T: "M", M: m}}
		}},
		{"l[0]", "l[0]", nil, func(v *val.V) val.Item {
			if v == nil {
				return val.Item{"l": val.L()}
			}
			return val.Item{"l": val.L(*v, val.S("tail"))}
		}},
		{"l[1]", "l[1]", nil, func(v *val.V) val.Item {
			if v == nil {
				return val.Item{"l": val.L(val.S("only"))}
			}
			return val.Item{"l": val.L(val.S("head"), *v)}
		}},
		{"m.l[0].x", "m.l[0].x", nil, func(v *val.V) val.Item {
			inner := map[string]val.V{}
			if v != nil {
				inner["x"] = *v
			}
			return val.Item{"m": val.M("l", val.L(val.V{T: "M", M: inner}))}
		}},
	}
}

// missingPaths are paths that never resolve: attribute absent, parent absent, index past the
// end, descent through a scalar.
func missingPaths() []struct {
	name, path string
	item       val.Item
} {
	return []struct {
		name, path string
		item       val.Item
	}{
		{"absnt", "absnt", val.Item{"z": val.S("other")}},
		{"absnt.x", "absnt.x", val.Item{"z": val.S("other")}},
		{"absnt[0]", "absnt[0]", val.Item{"z": val.S("other")}},
		{"l[5]", "l[5]", val.Item{"l": val.L(val.S("only"))}},
		{"m.nokey", "m.nokey", val.Item{"m": val.M("k", val.S("v"))}},
		{"s.x(through scalar)", "s.x", val.Item{"s": val.S("scalar")}},
		{"s[0](through scalar)", "s[0]", val.Item{"s": val.S("scalar")}},
		{"m.k.deep(through scalar)", "m.k.deep", val.Item{"m": val.M("k", val.S("v"))}},
	}
}

func tOf(v *val.V) string {
	if v == nil {
		return "-"
	}
	return v.T
}

func valOfType(t string, i int) *val.V {
	if t == "-" {
		return nil
	}
	vs := tvals[t]
	v := vs[i%len(vs)]
	return &v
}

var cmpOps = []string{"=", "<>", "<", "<=", ">", ">="}

func mergeItems(a, b val.Item) val.Item {
	o := a.Clone()
	for k, v := range b {
		o[k] = v
	}
	return o
}

// c06Atoms enumerates every atomic condition form with every typing.
func c06Atoms(thorough bool, emit func(c06case)) {
	paths := c06Paths()
	// 1. path cmp value, value cmp path — every path spelling, every typing of the target, every
	// type of the value (two values per type: equal to the attribute's, and different)
	for _, ps := range paths {
		for _, ta := range typesAbsent {
			av := valOfType(ta, 0)
			for _, tv := range val.Types {
				nvals := len(tvals[tv])
				for vi := 0; vi < nvals; vi++ {
					vv := tvals[tv][vi]
					for _, op := range cmpOps {
						item := ps.build(av)
						emit(c06case{fmt.Sprintf("cmp(%s)|path[%s]:%s|val:%s", op, ps.name, ta, tv), rx.Cmp(op, rx.OpP(ps.path), rx.OpV(":v")), item, ps.names, map[string]val.V{":v": vv}})
						if ps.name == "a" || thorough {
							emit(c06case{fmt.Sprintf("cmp(%s)|val:%s|path[%s]:%s", op, tv, ps.name, ta), rx.Cmp(op, rx.OpV(":v"), rx.OpP(ps.path)), item, ps.names, map[string]val.V{":v": vv}})
						}
					}
				}
			}
		}
	}
	// 2. never-resolving paths against every value type
	for _, mp := range missingPaths() {
		for _, tv := range val.Types {
			vv := tvals[tv][0]
			for _, op := range cmpOps {
				emit(c06case{fmt.Sprintf("cmp(%s)|path[%s]|val:%s", op, mp.name, tv), rx.Cmp(op, rx.OpP(mp.path), rx.OpV(":v")), mp.item, nil, map[string]val.V{":v": vv}})
			}
		}
		emit(c06case{fmt.Sprintf("attribute_exists|path[%s]", mp.name), rx.Exists(mp.path), mp.item, nil, nil})
		emit(c06case{fmt.Sprintf("attribute_not_exists|path[%s]", mp.name), rx.NotExists(mp.path), mp.item, nil, nil})
		emit(c06case{fmt.Sprintf("begins_with|path[%s]", mp.name), rx.BeginsWith(mp.path, ":v"), mp.item, nil, map[string]val.V{":v": val.S("a")}})
		emit(c06case{fmt.Sprintf("contains|path[%s]", mp.name), rx.Fn("contains", rx.OpP(mp.path), rx.OpV(":v")), mp.item, nil, map[string]val.V{":v": val.S("a")}})
		emit(c06case{fmt.Sprintf("attribute_type|path[%s]", mp.name), rx.Fn("attribute_type", rx.OpP(mp.path), rx.OpV(":t")), mp.item, nil, map[string]val.V{":t": val.S("S")}})
		emit(c06case{fmt.Sprintf("size|path[%s]", mp.name), rx.Cmp("=", rx.OpSize(mp.path), rx.OpV(":n")), mp.item, nil, map[string]val.V{":n": val.N("0")}})
		emit(c06case{fmt.Sprintf("between|path[%s]", mp.name), rx.Between(rx.OpP(mp.path), rx.OpV(":lo"), rx.OpV(":hi")), mp.item, nil, map[string]val.V{":lo": val.S("a"), ":hi": val.S("z")}})
		emit(c06case{fmt.Sprintf("in|path[%s]", mp.name), rx.In(rx.OpP(mp.path), rx.OpV(":v")), mp.item, nil, map[string]val.V{":v": val.S("a")}})
	}
	// 3. path cmp path, every pair of typings (same value / different value when types agree)
	for _, ta := range typesAbsent {
		for _, tb := range typesAbsent {
			for bi := 0; bi < 2; bi++ {
				if tb == "-" && bi > 0 {
					continue
				}
				item := val.Item{"z": val.S("other")}
				if av := valOfType(ta, 0); av != nil {
					item["a"] = *av
				}
				if bv := valOfType(tb, bi); bv != nil {
					item["b"] = *bv
				}
				for _, op := range cmpOps {
					emit(c06case{fmt.Sprintf("cmp(%s)|path:%s|path:%s", op, ta, tb), rx.Cmp(op, rx.OpP("a"), rx.OpP("b")), item, nil, nil})
				}
			}
		}
	}
	// 4. value cmp value
	for _, ta := range val.Types {
		for _, tb := range val.Types {
			for bi := 0; bi < 2; bi++ {
				for _, op := range cmpOps {
					emit(c06case{fmt.Sprintf("cmp(%s)|val:%s|val:%s", op, ta, tb), rx.Cmp(op, rx.OpV(":x"), rx.OpV(":y")), val.Item{"z": val.S("other")}, nil,
						map[string]val.V{":x": tvals[ta][0], ":y": tvals[tb][bi%len(tvals[tb])]}})
				}
			}
		}
	}
	// 5. BETWEEN: the attribute in every type, bounds in every pair of types; for orderable
	// same-type triples every arrangement of low/mid/high
	for _, ta := range typesAbsent {
		for _, tl := range val.Types {
			for _, th := range val.Types {
				item := val.Item{"z": val.S("other")}
				if av := valOfType(ta, 0); av != nil {
					item["a"] = *av
				}
				los, his := []int{0}, []int{0}
				if tl == th && (tl == "S" || tl == "N" || tl == "B") {
					los, his = []int{0, 1, 2}, []int{0, 1, 2}
				}
				for _, li := range los {
					for _, hi := range his {
						emit(c06case{fmt.Sprintf("between|path:%s|val:%s|val:%s", ta, tl, th), rx.Between(rx.OpP("a"), rx.OpV(":lo"), rx.OpV(":hi")), item, nil,
							map[string]val.V{":lo": tvals[tl][li], ":hi": tvals[th][hi]}})
					}
				}
			}
		}
	}
	// 6. IN with 1..3 members
	for _, ta := range typesAbsent {
		item := val.Item{"z": val.S("other")}
		if av := valOfType(ta, 0); av != nil {
			item["a"] = *av
		}
		for _, t1 := range val.Types {
			for i1 := 0; i1 < 2; i1++ {
				v1 := tvals[t1][i1%len(tvals[t1])]
				emit(c06case{fmt.Sprintf("in1|path:%s|%s", ta, t1), rx.In(rx.OpP("a"), rx.OpV(":p")), item, nil, map[string]val.V{":p": v1}})
				for _, t2 := range val.Types {
					for i2 := 0; i2 < 2; i2++ {
						v2 := tvals[t2][i2%len(tvals[t2])]
						emit(c06case{fmt.Sprintf("in2|path:%s|%s,%s", ta, t1, t2), rx.In(rx.OpP("a"), rx.OpV(":p"), rx.OpV(":q")), item, nil, map[string]val.V{":p": v1, ":q": v2}})
						if thorough && i1 == 1 && i2 == 1 {
							for _, t3 := range val.Types {
								emit(c06case{fmt.Sprintf("in3|path:%s|%s,%s,%s", ta, t1, t2, t3), rx.In(rx.OpP("a"), rx.OpV(":p"), rx.OpV(":q"), rx.OpV(":r")), item, nil,
									map[string]val.V{":p": v1, ":q": v2, ":r": tvals[t3][0]}})
							}
						}
					}
				}
			}
		}
		// a member that is a path
		item2 := item.Clone()
		if bv := valOfType(ta, 0); bv != nil {
			item2["b"] = *bv
		}
		emit(c06case{fmt.Sprintf("in(path member)|path:%s", ta), rx.In(rx.OpP("a"), rx.OpV(":p"), rx.OpP("b")), item2, nil, map[string]val.V{":p": val.S("nomatch")}})
	}
	// 6b. operand positions exchanged: a value on the left of IN / BETWEEN and attribute paths (named
	// nowhere else in the expression) in the list or as bounds
	for _, ta := range typesAbsent {
		for _, tb := range typesAbsent {
			for _, tx := range []string{"S", "N", "B", "BOOL"} {
				item := val.Item{"z": val.S("other")}
				if av := valOfType(ta, 1); av != nil {
					item["a"] = *av
				}
				if bv := valOfType(tb, 0); bv != nil {
					item["b"] = *bv
				}
				for xi := 0; xi < len(tvals[tx]) && xi < 2; xi++ {
					x := map[string]val.V{":x": tvals[tx][xi]}
					emit(c06case{fmt.Sprintf("in(value IN paths)|val:%s|path:%s,path:%s", tx, ta, tb), rx.In(rx.OpV(":x"), rx.OpP("a"), rx.OpP("b")), item, nil, x})
					emit(c06case{fmt.Sprintf("between(value BETWEEN paths)|val:%s|path:%s|path:%s", tx, ta, tb), rx.Between(rx.OpV(":x"), rx.OpP("a"), rx.OpP("b")), item, nil, x})
					emit(c06case{fmt.Sprintf("between(path BETWEEN path AND value)|path:%s|path:%s|val:%s", ta, tb, tx), rx.Between(rx.OpP("b"), rx.OpP("a"), rx.OpV(":x")), item, nil, x})
				}
			}
		}
	}
	// 6c. long operands: strings and binaries of more than 128 / 256 / 1024 bytes that agree on a long
	// prefix and differ at the end (anything that compares a rendering cut to a fixed width, or a
	// hash, instead of the value shows here)
	for _, n := range []int{129, 257, 1025} {
		base := strings.Repeat("x", n)
		for _, typ := range []string{"S", "B"} {
			mk := func(t string) val.V {
				if typ == "B" {
					return val.V{T: "B", B: []byte(t)}
				}
				return val.S(t)
			}
			stored := mk(base + "a")
			item := val.Item{"a": stored, "z": val.S("other")}
			for _, opnd := range []string{base + "a", base + "b", base, base + "ab", base[:n-1] + "y" + "a", "x"} {
				v := map[string]val.V{":v": mk(opnd)}
				tag := fmt.Sprintf("long(%d)|%s", n, typ)
				emit(c06case{"begins_with|" + tag, rx.Fn("begins_with", rx.OpP("a"), rx.OpV(":v")), item, nil, v})
				emit(c06case{"contains|" + tag, rx.Fn("contains", rx.OpP("a"), rx.OpV(":v")), item, nil, v})
				for _, op := range cmpOps {
					emit(c06case{"cmp(" + op + ")|" + tag, rx.Cmp(op, rx.OpP("a"), rx.OpV(":v")), item, nil, v})
				}
				emit(c06case{"in|" + tag, rx.In(rx.OpP("a"), rx.OpV(":v"), rx.OpV(":w")), item, nil, map[string]val.V{":v": mk(opnd), ":w": mk(base + "c")}})
				emit(c06case{"between|" + tag, rx.Between(rx.OpP("a"), rx.OpV(":lo"), rx.OpV(":v")), item, nil, map[string]val.V{":lo": mk(base), ":v": mk(opnd)}})
			}
			emit(c06case{"size|long|" + typ, rx.Cmp("=", rx.OpSize("a"), rx.OpV(":n")), item, nil, map[string]val.V{":n": val.N(fmt.Sprint(n + 1))}})
		}
	}
	// 7. functions on every path spelling x every typing
	for _, ps := range paths {
		for _, ta := range typesAbsent {
			item := ps.build(valOfType(ta, 0))
			emit(c06case{fmt.Sprintf("attribute_exists|path[%s]:%s", ps.name, ta), rx.Exists(ps.path), item, ps.names, nil})
			emit(c06case{fmt.Sprintf("attribute_not_exists|path[%s]:%s", ps.name, ta), rx.NotExists(ps.path), item, ps.names, nil})
			for _, tn := range append(append([]string{}, val.Types...), "X", "s") {
				emit(c06case{fmt.Sprintf("attribute_type|path[%s]:%s|%s", ps.name, ta, tn), rx.Fn("attribute_type", rx.OpP(ps.path), rx.OpV(":t")), item, ps.names, map[string]val.V{":t": val.S(tn)}})
			}
			emit(c06case{fmt.Sprintf("attribute_type|path[%s]:%s|non-string type operand", ps.name, ta), rx.Fn("attribute_type", rx.OpP(ps.path), rx.OpV(":t")), item, ps.names, map[string]val.V{":t": val.N("1")}})
			for _, tv := range val.Types {
				for vi := 0; vi < len(tvals[tv]); vi++ {
					vv := tvals[tv][vi]
					emit(c06case{fmt.Sprintf("begins_with|path[%s]:%s|val:%s", ps.name, ta, tv), rx.BeginsWith(ps.path, ":v"), item, ps.names, map[string]val.V{":v": vv}})
					emit(c06case{fmt.Sprintf("contains|path[%s]:%s|val:%s", ps.name, ta, tv), rx.Fn("contains", rx.OpP(ps.path), rx.OpV(":v")), item, ps.names, map[string]val.V{":v": vv}})
				}
			}
			// size compared with the true size, a different size and a non-number
			want := 0
			if av := valOfType(ta, 0); av != nil {
				if n, ok := rx.Size(*av); ok {
					want = n
				}
			}
			for _, op := range cmpOps {
				emit(c06case{fmt.Sprintf("size(%s)|path[%s]:%s|true size", op, ps.name, ta), rx.Cmp(op, rx.OpSize(ps.path), rx.OpV(":n")), item, ps.names, map[string]val.V{":n": val.N(fmt.Sprint(want))}})
				emit(c06case{fmt.Sprintf("size(%s)|path[%s]:%s|other size", op, ps.name, ta), rx.Cmp(op, rx.OpSize(ps.path), rx.OpV(":n")), item, ps.names, map[string]val.V{":n": val.N("7")}})
			}
			emit(c06case{fmt.Sprintf("size(=)|path[%s]:%s|string operand", ps.name, ta), rx.Cmp("=", rx.OpSize(ps.path), rx.OpV(":n")), item, ps.names, map[string]val.V{":n": val.S("1")}})
		}
	}
	// prefix / substring / membership truth tables on concrete values
	type sv struct {
		a, v val.V
	}
	for _, c := range []sv{
		{val.S("abc"), val.S("ab")}, {val.S("abc"), val.S("bc")}, {val.S("abc"), val.S("abc")}, {val.S("ab"), val.S("abc")}, {val.S("abc"), val.S("b")},
		{val.B(1, 2, 3), val.B(1, 2)}, {val.B(1, 2, 3), val.B(2, 3)}, {val.B(1, 2), val.B(1, 2, 3)},
		{val.SS("ab", "c"), val.S("ab")}, {val.SS("ab", "c"), val.S("a")}, {val.NS("1", "2"), val.N("2")}, {val.NS("1", "2"), val.N("3")},
		{val.BS([]byte{1, 2}), val.B(1, 2)}, {val.BS([]byte{1, 2}), val.B(1)},
		{val.L(val.S("x"), val.N("1")), val.N("1")}, {val.L(val.S("x"), val.N("1")), val.S("1")}, {val.L(val.L(val.S("x"))), val.L(val.S("x"))}, {val.L(val.M("k", val.S("x"))), val.M("k", val.S("x"))},
	} {
		item := val.Item{"a": c.a}
		emit(c06case{fmt.Sprintf("begins_with|concrete:%s|%s", c.a.T, c.v.T), rx.BeginsWith("a", ":v"), item, nil, map[string]val.V{":v": c.v}})
		emit(c06case{fmt.Sprintf("contains|concrete:%s|%s", c.a.T, c.v.T), rx.Fn("contains", rx.OpP("a"), rx.OpV(":v")), item, nil, map[string]val.V{":v": c.v}})
	}
	// structural equality of nested documents and sets written in a different order
	for i, c := range []sv{
		{val.SS("a", "b"), val.SS("b", "a")}, {val.NS("1", "2"), val.NS("2", "1")}, {val.BS([]byte{1}, []byte{2}), val.BS([]byte{2}, []byte{1})},
		{val.M("k", val.L(val.S("x"), val.M("j", val.N("1")))), val.M("k", val.L(val.S("x"), val.M("j", val.N("1"))))},
		{val.M("k", val.L(val.S("x"))), val.M("k", val.L(val.S("y")))}, {val.L(val.S("x"), val.S("y")), val.L(val.S("y"), val.S("x"))},
		{val.M("a", val.S("1"), "b", val.S("2")), val.M("b", val.S("2"), "a", val.S("1"))}, {val.L(), val.L()}, {val.M(), val.M()}, {val.S(""), val.S("")},
		{val.L(val.Null()), val.L(val.Null())}, {val.Bool(false), val.Bool(false)}, {val.Null(), val.Null()},
		// sets of one type: same size with other members, proper subset and superset, overlap
		{val.SS("a", "b"), val.SS("a", "c")}, {val.SS("a"), val.SS("a", "b")}, {val.SS("a", "b"), val.SS("a")},
		{val.NS("1", "2"), val.NS("1", "3")}, {val.NS("1"), val.NS("1", "2")}, {val.NS("1", "2"), val.NS("1")}, {val.NS("1.0", "2"), val.NS("2.00", "1")},
		{val.BS([]byte{1}, []byte{2}), val.BS([]byte{1}, []byte{3})}, {val.BS([]byte{1}), val.BS([]byte{1}, []byte{2})}, {val.BS([]byte{1}, []byte{2}), val.BS([]byte{1})},
		// a list that is a prefix of the other, a map whose entries are a subset of the other's
		{val.L(val.S("x")), val.L(val.S("x"), val.S("y"))}, {val.L(val.S("x"), val.S("y")), val.L(val.S("x"))}, {val.L(), val.L(val.S("x"))},
		{val.M("k", val.N("1")), val.M("k", val.N("1"), "j", val.N("2"))}, {val.M("k", val.N("1"), "j", val.N("2")), val.M("k", val.N("1"))}, {val.M(), val.M("k", val.N("1"))},
		{val.L(val.S("x"), val.S("x"), val.S("y")), val.L(val.S("x"), val.S("y"), val.S("y"))},
		// sets that read alike when their members are written next to one another
		{val.SS("green red"), val.SS("green", "red")}, {val.SS("a", "b c"), val.SS("a b", "c")}, {val.NS("1", "23"), val.NS("12", "3")},
		{val.BS([]byte("ab")), val.BS([]byte("a"), []byte("b"))}, {val.L(val.S("a b")), val.L(val.S("a"), val.S("b"))}, {val.L(val.S("a"), val.S("b c")), val.L(val.S("a b"), val.S("c"))},
		// maps and lists of equal size that differ in exactly one of several members (whichever
		// member a comparison happens to visit first, the others count too)
		{val.M("k", val.N("1"), "j", val.N("2"), "i", val.N("3"), "h", val.N("4")), val.M("k", val.N("1"), "j", val.N("2"), "i", val.N("3"), "h", val.N("5"))},
		{val.M("k", val.N("1"), "j", val.N("2"), "i", val.N("3"), "h", val.N("4")), val.M("k", val.N("9"), "j", val.N("2"), "i", val.N("3"), "h", val.N("4"))},
		{val.M("k", val.S("a"), "j", val.S("b"), "i", val.S("c"), "h", val.S("d")), val.M("k", val.S("a"), "j", val.S("x"), "i", val.S("c"), "h", val.S("d"))},
		{val.M("k", val.S("a"), "j", val.S("b"), "i", val.S("c"), "h", val.S("d")), val.M("k", val.S("a"), "j", val.S("b"), "i", val.S("c"), "g", val.S("d"))},
		{val.L(val.N("1"), val.N("2"), val.N("3")), val.L(val.N("1"), val.N("2"), val.N("4"))}, {val.L(val.N("1"), val.N("2"), val.N("3")), val.L(val.N("0"), val.N("2"), val.N("3"))},
		{val.L(val.N("1"), val.N("2"), val.N("3")), val.L(val.N("1"), val.N("0"), val.N("3"))},
		// sets nested in documents, members written in another order
		{val.M("k", val.SS("a", "b")), val.M("k", val.SS("b", "a"))}, {val.M("k", val.NS("1", "2")), val.M("k", val.NS("2", "1"))}, {val.M("k", val.BS([]byte{1}, []byte{2})), val.M("k", val.BS([]byte{2}, []byte{1}))},
		{val.L(val.BS([]byte{1}, []byte{2})), val.L(val.BS([]byte{2}, []byte{1}))}, {val.L(val.SS("a", "b")), val.L(val.SS("a", "c"))},
	} {
		item := val.Item{"a": c.a}
		emit(c06case{fmt.Sprintf("structural(=)#%d:%s", i, c.a.T), rx.Eq("a", ":v"), item, nil, map[string]val.V{":v": c.v}})
		emit(c06case{fmt.Sprintf("structural(<>)#%d:%s", i, c.a.T), rx.Cmp("<>", rx.OpP("a"), rx.OpV(":v")), item, nil, map[string]val.V{":v": c.v}})
	}
}

// c06Compound enumerates every boolean tree with up to maxLeaves leaves over NOT / AND / OR /
// explicit parentheses; leaves are atoms of known truth value. Printing uses minimal
// parentheses, so the implementation's precedence must rebuild the tree.
func c06Compound(maxLeaves int, emit func(c06case)) {
	item := val.Item{"t": val.N("1"), "f": val.N("0")}
	values := map[string]val.V{":one": val.N("1")}
	leafT := func() *rx.Cond { return rx.Eq("t", ":one") }
	leafF := func() *rx.Cond { return rx.Eq("f", ":one") }
	type tree struct {
		c    *rx.Cond
		form string
	}
	memo := map[int][]tree{}
	var gen func(n int) []tree
	gen = func(n int) []tree {
		if r, ok := memo[n]; ok {
			return r
		}
		var out []tree
		if n == 1 {
			out = append(out, tree{leafT(), "T"}, tree{leafF(), "F"})
			// function leaves and between/in leaves bind tighter than NOT as well
			out = append(out, tree{rx.Exists("t"), "Tfn"}, tree{rx.Between(rx.OpP("f"), rx.OpV(":one"), rx.OpV(":one")), "Fbetween"}, tree{rx.In(rx.OpP("t"), rx.OpV(":one")), "Tin"})
		}
		for l := 1; l < n; l++ {
			for _, a := range gen(l) {
				for _, b := range gen(n - l) {
					out = append(out, tree{rx.And(a.c, b.c), "(" + a.form + " AND " + b.form + ")"})
					out = append(out, tree{rx.Or(a.c, b.c), "(" + a.form + " OR " + b.form + ")"})
				}
			}
		}
		// unary wrappers do not add leaves: apply once per size to everything generated so far
		base := append([]tree{}, out...)
		for _, a := range base {
			if a.c.K != "not" {
				out = append(out, tree{rx.Not(a.c), "NOT " + a.form})
			}
			if a.c.K != "paren" && n > 1 {
				out = append(out, tree{rx.Paren(a.c), "[" + a.form + "]"})
			}
		}
		memo[n] = out
		return out
	}
	seen := map[string]bool{}
	for n := 1; n <= maxLeaves; n++ {
		for _, t := range gen(n) {
			s := t.c.String()
			if seen[s] {
				continue
			}
			seen[s] = true
			emit(c06case{"compound|leaves=" + fmt.Sprint(n), t.c, item, nil, values})
		}
	}
	// connectives over operands that are invalid or mistyped
	bad := rx.Cmp("<", rx.OpP("t"), rx.OpV(":s"))
	vs := map[string]val.V{":one": val.N("1"), ":s": val.S("x")}
	for _, l := range []*rx.Cond{leafT(), leafF()} {
		emit(c06case{"compound|mistyped operand AND", rx.And(l, bad), item, nil, vs})
		emit(c06case{"compound|mistyped operand OR", rx.Or(l, bad), item, nil, vs})
		emit(c06case{"compound|mistyped operand AND", rx.And(bad, l), item, nil, vs})
		emit(c06case{"compound|mistyped operand OR", rx.Or(bad, l), item, nil, vs})
	}
	emit(c06case{"compound|NOT mistyped", rx.Not(bad), item, nil, vs})
}

// C06: condition, filter and key expressions evaluate per DynamoDB semantics.
func C06(run *ev.Run, tier string) map[string]interface{} {
	thorough := tier == "thorough"
	var cases []c06case
	c06Atoms(thorough, func(c c06case) { cases = append(cases, c) })
	leaves := 3
	if thorough {
		leaves = 4
	}
	c06Compound(leaves, func(c c06case) { cases = append(cases, c) })
	// the same expressions with other white space between the tokens (tab, newline, carriage
	// return + newline, two blanks): the truth value does not depend on it. Every compound tree of
	// up to three leaves and every seventh other case, streamed to the workers (not materialised).
	wsVariant := func(i int, c c06case) bool {
		if strings.HasPrefix(c.form, "compound|leaves=") {
			return c.form < "compound|leaves=4"
		}
		return i%7 == 0
	}

	var nEval int64
	var mu sync.Mutex
	hist := map[string]int{}
	forms := map[string]bool{}
	distinct := map[string]bool{}
	var samples []interface{}
	var wg sync.WaitGroup
	ch := make(chan c06case, 1024)
	for w := 0; w < 16; w++ {
		wg.Add(1)
		w := w
		go func() {
			defer wg.Done()
			for c := range ch {
				expr := c.cond.String()
				if i := strings.Index(c.form, "|ws="); i >= 0 {
					expr = strings.ReplaceAll(expr, " ", c.form[i+4:])
					c.form = c.form[:i] // (signatures do not distinguish the white space)
				}
				ev.SetInFlight(w, "Language.Match "+expr+" item "+c.item.CanonText()+" values "+fmt.Sprint(c.values))
				atomic.AddInt64(&nEval, 1)
				mask := c.cond.Eval(rx.Env{Item: c.item, Names: c.names, Values: c.values})
				before := c.item.CanonText()
				out, passed := itp.Match(expr, c.item, c.names, c.values)
				after := itp.ItemFromTypes(passed).CanonText()
				key := expr + "|" + before + "|" + fmt.Sprint(c.values)
				mu.Lock()
				hist[out.O]++
				forms[c.form] = true
				distinct[key] = true
				if len(samples) < 5 && len(distinct)%977 == 1 {
					samples = append(samples, map[string]interface{}{"expression": expr, "item": before, "values": fmt.Sprint(c.values), "accepted": rx.MaskString(mask), "observed": out.O})
				}
				mu.Unlock()
				ok := false
				switch out.O {
				case "T":
					ok = mask&rx.T != 0
				case "F":
					ok = mask&rx.F != 0
				case "E":
					ok = mask&rx.E != 0
				}
				if !ok {
					sig := fmt.Sprintf("C06|%s|accepted%s|got=%s", c.form, rx.MaskString(mask), out.O)
					// recorded finding, attributed only when the defect model predicts this very answer
					if alt := c.cond.Eval(rx.Env{Item: c.item, Names: c.names, Values: c.values, AliasAsPath: true}); alt != mask && alt&map[string]int{"T": rx.T, "F": rx.F, "E": rx.E}[out.O] != 0 {
						sig = "C06|placeholder-naming-a-dotted-attribute|explained-by-alias-read-as-document-path"
					}
					run.Report(sig, fmt.Sprintf("%q on item %s values %v names %v: accepted %s, observed %s %s", expr, before, c.values, c.names, rx.MaskString(mask), out.O, out.Msg),
						map[string]interface{}{"expression": expr, "item": c.item, "names": c.names, "values": c.values, "accepted": rx.MaskString(mask), "observed": out.O})
				}
				if before != after {
					run.Report(fmt.Sprintf("C06|%s|item-modified-by-evaluation", c.form), fmt.Sprintf("%q: item before %s after %s", expr, before, after),
						map[string]interface{}{"expression": expr, "item": c.item, "names": c.names, "values": c.values})
				}
			}
		}()
	}
	// each case is evaluated three times: Go randomises map iteration order, so attribute order
	// inside the environment differs between runs; the outcome must not
	rounds := 2
	if thorough {
		rounds = 3
	}
	for r := 0; r < rounds; r++ {
		for i, c := range cases {
			ch <- c
			if wsVariant(i, c) {
				for _, ws := range []string{"\t", "\n", "\r\n", "  "} {
					v := c
					v.form += "|ws=" + ws
					ch <- v
				}
			}
		}
	}
	close(ch)
	wg.Wait()
	fl := make([]string, 0, len(forms))
	for f := range forms {
		fl = append(fl, f)
	}
	sort.Strings(fl)
	if len(samples) == 0 {
		samples = append(samples, "(none)")
	}
	return map[string]interface{}{
		"evaluations":         atomic.LoadInt64(&nEval),
		"distinct_nontrivial": len(distinct),
		"distinct_forms":      len(forms),
		"rule":                "every atomic condition form (6 comparators over path/value, value/path, path/path, value/value; BETWEEN; IN with 1-3 members; attribute_exists, attribute_not_exists, attribute_type, begins_with, contains, size) x every path spelling (a, #a, azAZ_09, m.x, m.#x, #d naming the attribute \"d.e\" next to a map d, m.#k naming the key \"x.y\", l[0], l[1], m.l[0].x and never-resolving paths) x every typing of the operands with the ten types and absence (two or three values per type), plus every boolean tree with up to N leaves over NOT/AND/OR/parentheses printed with minimal parentheses; the compound trees of up to three leaves and every seventh other case once more with tab / newline / CR LF / two blanks as white space; a case is distinct by (expression text, item, bindings); evaluated directly on interpreter.Language.Match against the reference three-valued evaluator with acceptance sets",
		"samples":             samples,
		"exhaustive":          true,
		"outcome_histogram":   hist,
		"compound_max_leaves": leaves,
		"rounds":              rounds,
	}
}
