package checks

import (
	"verif/drv"
	"verif/ev"
	"verif/mc"
	"verif/model"
	"verif/rx"
	"verif/val"
)

func init() { Registry["C03"] = C03 }

type c03cfg struct {
	name    string
	cfg     drv.TableCfg
	keys    []val.Item
	hasS    bool // the index has a range attribute s
	gsi2    bool // allow UpdateTable create/delete of a second GSI on attribute a
	clearOp bool
}

func c03Alphabet(c c03cfg) func(m *model.Model) []drv.Op {
	return func(m *model.Model) []drv.Op {
		var ops []drv.Op
		add := func(tag string, o drv.Op) {
			o.Tag = tag
			o.Table = "tab"
			ops = append(ops, o)
		}
		for _, k := range c.keys {
			// (the items carry a nested document: a rejected write must leave its members alone too)
			add("Put(no index key)", drv.Op{K: drv.KPut, Item: with(k, "a", val.S("v"), "m", val.M("x", val.N("1"), "note", val.S("n")))})
			if c.hasS {
				add("Put(g=x,s=1)", drv.Op{K: drv.KPut, Item: with(k, "g", val.S("x"), "s", val.S("1"), "a", val.S("v"))})
				add("Put(g=x,s=2)", drv.Op{K: drv.KPut, Item: with(k, "g", val.S("x"), "s", val.S("2"))})
				add("Put(g=y,s=1)", drv.Op{K: drv.KPut, Item: with(k, "g", val.S("y"), "s", val.S("1"))})
				add("Put(g only)", drv.Op{K: drv.KPut, Item: with(k, "g", val.S("x"))})
				add("Upd(SET s)", drv.Op{K: drv.KUpd, Key: k, Upd: rx.U(rx.Set("s", rx.RV(":s"))), Values: map[string]val.V{":s": val.S("2")}})
				add("Upd(REMOVE s)", drv.Op{K: drv.KUpd, Key: k, Upd: rx.U(rx.Remove("s"))})
			} else {
				add("Put(g=x)", drv.Op{K: drv.KPut, Item: with(k, "g", val.S("x"), "a", val.S("v"), "m", val.M("x", val.N("1"), "note", val.S("n")))})
				add("Put(g=y)", drv.Op{K: drv.KPut, Item: with(k, "g", val.S("y"))})
			}
			add("Upd(SET g=x)", drv.Op{K: drv.KUpd, Key: k, Upd: rx.U(rx.Set("g", rx.RV(":g"))), Values: map[string]val.V{":g": val.S("x")}})
			add("Upd(SET g=y)", drv.Op{K: drv.KUpd, Key: k, Upd: rx.U(rx.Set("g", rx.RV(":g"))), Values: map[string]val.V{":g": val.S("y")}})
			add("Upd(REMOVE g)", drv.Op{K: drv.KUpd, Key: k, Upd: rx.U(rx.Remove("g"))})
			add("Del", drv.Op{K: drv.KDel, Key: k})
			if c.gsi2 {
				// an item whose attribute a is a number: it is ill-typed for the index created later on a:S,
				// stays out of it and must not keep the items after it from being indexed
				add("Put(a is a number)", drv.Op{K: drv.KPut, Item: with(k, "a", val.N("5"), "g", val.S("x"))})
			}
		}
		if c.clearOp {
			add("ClearTable", drv.Op{K: drv.KClear})
		}
		if c.gsi2 {
			if _, ok := m.Tables["tab"].Indexes["gsi2"]; ok {
				add("UpdateTable(delete gsi2)", drv.Op{K: drv.KDeleteGSI, Index: "gsi2"})
			} else {
				add("UpdateTable(create gsi2)", drv.Op{K: drv.KCreateGSI, IdxCfg: &drv.IndexCfg{Name: "gsi2", Hash: "a", HashT: "S"}})
			}
		}
		return ops
	}
}

func c03Configs(thorough bool) []c03cfg {
	hk := []val.Item{hKey("k1"), hKey("k2")}
	hrk := []val.Item{hrKey("p", "1"), hrKey("p", "2")}
	if thorough {
		hk = append(hk, hKey("k3"))
		hrk = append(hrk, hrKey("q", "1"))
	}
	return []c03cfg{
		{name: "GSI-hash", cfg: drv.TableCfg{Hash: "h", HashT: "S", Billing: "PAY_PER_REQUEST", GSI: []drv.IndexCfg{{Name: "gsi", Hash: "g", HashT: "S"}}}, keys: hk, gsi2: true, clearOp: true},
		{name: "GSI-hash+range", cfg: drv.TableCfg{Hash: "h", HashT: "S", Billing: "PAY_PER_REQUEST", GSI: []drv.IndexCfg{{Name: "gsi", Hash: "g", HashT: "S", Range: "s", RangeT: "S"}}}, keys: hk, hasS: true, clearOp: true},
		// indexes keyed on the table's own key attributes: every item belongs to them from the moment it exists, also when UpdateItem creates it
		{name: "GSI-inverted", cfg: drv.TableCfg{Hash: "h", HashT: "S", Range: "r", RangeT: "S", Billing: "PAY_PER_REQUEST", GSI: []drv.IndexCfg{{Name: "gsi", Hash: "r", HashT: "S", Range: "h", RangeT: "S"}}}, keys: hrk, clearOp: true},
		{name: "GSI-on-range-key", cfg: drv.TableCfg{Hash: "h", HashT: "S", Range: "r", RangeT: "S", Billing: "PAY_PER_REQUEST", GSI: []drv.IndexCfg{{Name: "gsi", Hash: "r", HashT: "S"}, {Name: "gsi2", Hash: "g", HashT: "S"}}}, keys: hrk},
		{name: "LSI", cfg: drv.TableCfg{Hash: "h", HashT: "S", Range: "r", RangeT: "S", Billing: "PAY_PER_REQUEST", LSI: []drv.IndexCfg{{Name: "lsi", Hash: "h", HashT: "S", Range: "g", RangeT: "S", Local: true}, {Name: "ls2", Hash: "h", HashT: "S", Range: "s", RangeT: "S", Local: true}}}, keys: hrk, clearOp: true},
	}
}

// C03: secondary indexes always mirror the base table.
func C03(run *ev.Run, tier string) map[string]interface{} {
	thorough := tier == "thorough"
	dl := deadline(tier)
	total, per := exploreBoth(run, func(newImpl func() drv.Driver, dn string) []mc.Sys {
		var out []mc.Sys
		for _, c := range c03Configs(thorough) {
			c := c
			u := Universe{Keys: map[string][]val.Item{"tab": c.keys}}
			maxStates := 20000
			if thorough {
				maxStates = 600000
			}
			out = append(out, mc.Sys{
				Name:      "C03/" + c.name,
				NewImpl:   newImpl,
				Init:      []drv.Op{{K: drv.KCreate, Table: "tab", Cfg: &c.cfg}},
				Alphabet:  c03Alphabet(c),
				Observe:   func(m *model.Model) []drv.Op { return ObserveOps(m, u) },
				SigOf:     mc.DefaultSig("C03"),
				MaxStates: maxStates,
				Deadline:  dl,
			})
		}
		return out
	})
	cov := total.Coverage()
	cov["per_system"] = per
	cov["alphabet"] = "Put (without index key / g=x / g=y / with range values), Upd SET g, REMOVE g, SET s, REMOVE s, Del, ClearTable, UpdateTable create/delete second GSI on an attribute items already have; configurations: GSI hash-only, GSI hash+range, GSI inverted (range key, hash key), GSI on the table range key next to a GSI on g, two LSIs (on g and on s); both SDK adapters"
	cov["oracle"] = "after every transition: Scan(index) and Query(index, each key value, both directions) = base items possessing all index key attributes, with current values; DescribeTable per-index ItemCount = their number; plus the full base-table observation"
	return cov
}
