package checks

import (
	"verif/drv"
	"verif/ev"
	"verif/mc"
	"verif/model"
	"verif/rx"
	"verif/val"
)

func init() { Registry["C15"] = C15 }

func c15Alphabet(thorough bool, withBatchGet bool) func(m *model.Model) []drv.Op {
	keys := []val.Item{hKey("k1"), hKey("k2")}
	return func(m *model.Model) []drv.Op {
		var ops []drv.Op
		add := func(tag string, o drv.Op) {
			o.Tag = tag
			if o.Table == "" && o.K != drv.KFail && o.K != drv.KBatchWrite && o.K != drv.KBatchGet && o.K != drv.KTransact {
				o.Table = "tba"
			}
			ops = append(ops, o)
		}
		for _, f := range []string{"internal_server", "deprecated", "active_force", "none", "deactive_force"} {
			add("Fail("+f+")", drv.Op{K: drv.KFail, Fail: f})
		}
		for _, k := range keys {
			add("Put", drv.Op{K: drv.KPut, Item: with(k, "a", val.S("one"))})
			add("Put2", drv.Op{K: drv.KPut, Item: with(k, "a", val.S("two"), "b", val.N("2"))})
			add("Upd", drv.Op{K: drv.KUpd, Key: k, Upd: rx.U(rx.Set("a", rx.RV(":v"))), Values: map[string]val.V{":v": val.S("upd")}})
			add("Del", drv.Op{K: drv.KDel, Key: k, AllOld: true})
			add("Get", drv.Op{K: drv.KGet, Key: k})
			add("Query", drv.Op{K: drv.KQuery, KeyCond: rx.Eq("h", ":h"), Values: map[string]val.V{":h": k["h"]}})
		}
		add("Scan", drv.Op{K: drv.KScan})
		add("Transact", drv.Op{K: drv.KTransact})
		k1, k2 := keys[0], keys[1]
		add("BatchWrite(1)", drv.Op{K: drv.KBatchWrite, Batch: []drv.BWReq{{Table: "tba", Put: with(k1, "a", val.S("b1"))}}})
		if m.Fail != "" {
			// an item with empty containers: what comes back as unprocessed is the request as submitted
			add("BatchWrite(item with empty list, map, binary)", drv.Op{K: drv.KBatchWrite, Batch: []drv.BWReq{{Table: "tba", Put: with(k1, "l", val.L(), "m", val.M("n", val.M()), "b", val.V{T: "B", B: []byte{}})}}})
		}
		add("BatchWrite(2)", drv.Op{K: drv.KBatchWrite, Batch: []drv.BWReq{{Table: "tba", Put: with(k1, "a", val.S("b2"))}, {Table: "tbb", Del: k1.Clone()}}})
		add("BatchWrite(3)", drv.Op{K: drv.KBatchWrite, Batch: []drv.BWReq{{Table: "tba", Del: k1.Clone()}, {Table: "tba", Put: with(k2, "a", val.S("b3"))}, {Table: "tbb", Put: with(k1, "a", val.S("b3"))}}})
		if thorough {
			add("BatchWrite(3b)", drv.Op{K: drv.KBatchWrite, Batch: []drv.BWReq{{Table: "tbb", Del: k1.Clone()}, {Table: "tbb", Put: with(k2, "a", val.S("b4"))}, {Table: "tba", Del: k2.Clone()}}})
			add("PutB", drv.Op{K: drv.KPut, Table: "tbb", Item: with(k2, "a", val.S("one"))})
		}
		// requests that repeat a key (only while a failure is active: what such a batch does when it
		// succeeds belongs to C19): every request comes back, none is merged away
		if m.Fail != "" {
			add("BatchWrite(same key twice)", drv.Op{K: drv.KBatchWrite, Batch: []drv.BWReq{{Table: "tba", Put: with(k1, "a", val.S("d1"))}, {Table: "tba", Put: with(k1, "a", val.S("d2"))}}})
			add("BatchWrite(put, delete, put of one key)", drv.Op{K: drv.KBatchWrite, Batch: []drv.BWReq{{Table: "tba", Put: with(k1, "a", val.S("d1"))}, {Table: "tba", Del: k1.Clone()}, {Table: "tbb", Put: with(k2, "a", val.S("d3"))}, {Table: "tba", Put: with(k1, "a", val.S("d2"))}}})
		}
		// BatchGetItem is exercised only while a failure is active (its success path, including the
		// absent-keys finding, belongs to C19)
		if withBatchGet && m.Fail != "" {
			add("BatchGet", drv.Op{K: drv.KBatchGet, BGKeys: map[string][]val.Item{"tba": {k1.Clone(), k2.Clone()}, "tbb": {k1.Clone()}}})
		}
		return ops
	}
}

// C15: emulated failures fail every data call, change nothing, and are reversible.
func C15(run *ev.Run, tier string) map[string]interface{} {
	thorough := tier == "thorough"
	dl := deadline(tier)
	cfg := drv.TableCfg{Hash: "h", HashT: "S", Billing: "PAY_PER_REQUEST"}
	u := Universe{Keys: map[string][]val.Item{"tba": {hKey("k1"), hKey("k2")}, "tbb": {hKey("k1"), hKey("k2")}}}
	total, per := exploreBoth(run, func(newImpl func() drv.Driver, dn string) []mc.Sys {
		return []mc.Sys{{
			Name:     "C15",
			NewImpl:  newImpl,
			Init:     []drv.Op{{K: drv.KCreate, Table: "tba", Cfg: &cfg}, {K: drv.KCreate, Table: "tbb", Cfg: &cfg}},
			Alphabet: c15Alphabet(thorough, dn == "v2"), // the v1 client has no BatchGetItem (finding C19-v1-batchget-missing)
			// while a failure is active reads fail too: the state is observed through the reads'
			// error class here and through the full observation once the failure is lifted
			Observe:   func(m *model.Model) []drv.Op { return ObserveOps(m, u) },
			SigOf:     mc.DefaultSig("C15"),
			MaxStates: 400000,
			Deadline:  dl,
		}}
	})
	cov := total.Coverage()
	cov["per_system"] = per
	cov["alphabet"] = "EmulateFailure(internal_server | deprecated | none), ActiveForceFailure, DeactiveForceFailure x Put, Upd, Del, Get, Query, Scan, TransactWriteItems, BatchWriteItem of 1-3 requests over two tables (present and absent keys) and, while a failure is active, batches that repeat a key, BatchGetItem; two keys; both SDK adapters"
	cov["oracle"] = "while a condition is active: every data call returns the configured error class (ForcedFailure sentinel by identity, InternalServerError) and the model does not change; BatchWriteItem under internal-server failure returns every request in UnprocessedItems and applies none; after deactivation the implementation is in lock-step with the model that never saw the failing calls (full observation after every transition, observation reads themselves must fail with the configured error while active)"
	return cov
}
