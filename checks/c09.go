package checks

import (
	"fmt"
	"strings"
	"sync"
	"sync/atomic"

	"verif/drv"
	"verif/ev"
	"verif/itp"
	"verif/rx"
	"verif/val"
)

func init() { Registry["C09"] = C09 }

var c09Alphabet = []string{"a", "#n", ":v", "size", "attribute_exists", "AND", "and", "OR", "NOT", "not", "BETWEEN", "IN", "SET", "set",
	"REMOVE", "ADD", "DELETE", "=", "<>", "<", "(", ")", ",", ".", "[", "]", "0", "+"}

var c09Core = []string{"a", ":v", "AND", "and", "NOT", "SET", "=", "(", ")", ",", ".", "["}

var c09Names = map[string]string{"#n": "a"}
var c09Values = map[string]val.V{":v": val.N("1")}

// other bindings of :v under which every string that mentions it is evaluated once more (on the
// typed item): a negative number, a fraction, a string, a list
var c09OtherValues = []map[string]val.V{{":v": val.N("-1")}, {":v": val.N("1e30")}, {":v": val.N("0.5")}, {":v": val.S("x")}, {":v": val.L(val.N("1"))}}
var c09Items = []val.Item{
	{"a": val.N("1"), "m": val.M("a", val.N("1")), "l": val.L(val.N("1"))},
	{},
}

type c09stats struct {
	evals     int64
	sentences int64
	rejected  int64
	accepted  int64
}

// c09Eval evaluates one string in one grammar on the interpreter and judges it.
func c09Eval(run *ev.Run, st *c09stats, grammar, s string, why string) {
	names := c09Names
	type binding struct {
		item   val.Item
		values map[string]val.V
	}
	bs := []binding{{c09Items[0], c09Values}, {c09Items[1], c09Values}}
	if strings.Contains(s, ":v") {
		for _, ov := range c09OtherValues {
			bs = append(bs, binding{c09Items[0], ov})
		}
	}
	for _, b := range bs {
		item, values := b.item, b.values
		var out itp.Outcome
		var sentence bool
		if grammar == "cond" {
			out, _ = itp.Match(s, item, names, values)
			sentence = rx.IsCondSentence(s)
		} else {
			out, _ = itp.Update(s, item, names, values)
			sentence = rx.IsUpdateSentence(s)
		}
		atomic.AddInt64(&st.evals, 1)
		if sentence {
			atomic.AddInt64(&st.sentences, 1)
		}
		if out.O == "E" {
			atomic.AddInt64(&st.rejected, 1)
		} else {
			atomic.AddInt64(&st.accepted, 1)
		}
		rep := map[string]interface{}{"grammar": grammar, "expression": s, "expression_bytes": []byte(s), "item": item, "values": values}
		if out.O == "P" {
			run.Report(fmt.Sprintf("C09|%s|panic|%s|%s", grammar, why, panicClass(out.Msg)), fmt.Sprintf("%q (item %s, values %v): panic %s", s, item.CanonText(), values, out.Msg), rep)
			continue
		}
		if !sentence && out.O != "E" {
			run.Report(fmt.Sprintf("C09|%s|non-sentence-accepted|%s|%s", grammar, why, rejectWhy(grammar, s)), fmt.Sprintf("%q is not a sentence of the %s grammar but evaluated to %s", s, grammar, out.O), rep)
		}
	}
}

func panicClass(msg string) string {
	switch {
	case strings.Contains(msg, "index out of range"):
		return "index-out-of-range"
	case strings.Contains(msg, "nil pointer"):
		return "nil-dereference"
	case strings.Contains(msg, "interface conversion"):
		return "interface-conversion"
	case strings.Contains(msg, "slice bounds"):
		return "slice-bounds"
	}
	return "other"
}

// rejectWhy classifies why the reference recogniser rejects the string (for signatures).
func rejectWhy(grammar, s string) string {
	if strings.IndexByte(s, 0) >= 0 {
		return "NUL-byte"
	}
	for i := 0; i < len(s); i++ {
		c := s[i]
		ok := c == ' ' || c == '\t' || c == '\n' || c == '\r' || c >= 'a' && c <= 'z' || c >= 'A' && c <= 'Z' || c >= '0' && c <= '9' || strings.IndexByte("_:#=<>(),.[]+-", c) >= 0
		if !ok {
			return "unknown-character"
		}
	}
	if strings.TrimSpace(s) == "" {
		return "empty"
	}
	// longest prefix that is a sentence: juxtaposed / trailing tokens
	f := rx.IsCondSentence
	if grammar == "update" {
		f = rx.IsUpdateSentence
	}
	fields := strings.Fields(s)
	for n := len(fields) - 1; n >= 1; n-- {
		if f(strings.Join(fields[:n], " ")) {
			return "trailing-or-juxtaposed-tokens"
		}
	}
	if strings.Count(s, "(") != strings.Count(s, ")") || strings.Count(s, "[") != strings.Count(s, "]") {
		return "unbalanced"
	}
	return "incomplete-or-malformed"
}

// C09: the expression front end is total and strict.
func C09(run *ev.Run, tier string) map[string]interface{} {
	thorough := tier == "thorough"
	st := &c09stats{}
	// the second evaluation on a long-lived interpreter (itp) is limited to strings of at most five bytes
	// (every string is presented several times in this process anyway,
	// once per binding of :v, which is what a package-level cache would need)
	itp.WarmFilter = func(expr string) bool { return len(expr) <= 5 }
	type job struct{ grammar, s, why string }
	ch := make(chan job, 4096)
	var wg sync.WaitGroup
	for w := 0; w < 16; w++ {
		wg.Add(1)
		w := w
		go func() {
			defer wg.Done()
			n := 0
			for j := range ch {
				n++
				if n%64 == 0 {
					ev.SetInFlight(w, fmt.Sprintf("%s %q", j.grammar, j.s))
				} else {
					evSetQuiet(w, j.grammar, j.s)
				}
				c09Eval(run, st, j.grammar, j.s, j.why)
			}
		}()
	}
	var distinct int64
	emit := func(s, why string) {
		distinct++
		ch <- job{"cond", s, why}
		ch <- job{"update", s, why}
	}
	// (a) every token string up to length L over the alphabet, joined with blanks and (where it
	// differs) without
	maxLen := 4
	if thorough {
		maxLen = 5
	}
	var rec func(alpha []string, cur []string, max int)
	rec = func(alpha []string, cur []string, max int) {
		if len(cur) > 0 {
			emit(strings.Join(cur, " "), "tokens")
			if len(cur) > 1 {
				if t := strings.Join(cur, ""); t != strings.Join(cur, " ") {
					emit(t, "tokens-unspaced")
				}
			}
		}
		if len(cur) == max {
			return
		}
		for _, t := range alpha {
			rec(alpha, append(cur, t), max)
		}
	}
	rec(c09Alphabet, nil, maxLen)
	coreLen := 5
	if thorough {
		coreLen = 6
	}
	rec(c09Core, nil, coreLen)
	// (b) byte strings: every single byte and every pair of bytes standalone; every single byte
	// (thorough: every pair over one representative per lexer class, NUL and high bytes)
	// embedded at every position of three valid sentences
	for b := 0; b < 256; b++ {
		emit(string([]byte{byte(b)}), "bytes")
		for c := 0; c < 256; c++ {
			emit(string([]byte{byte(b), byte(c)}), "bytes")
		}
	}
	hosts := []string{"a = :v", "attribute_exists(a) AND NOT #n < :v", "SET a = :v REMOVE m.a, l[0]"}
	reps := []byte{0, ' ', 'a', 'Z', '0', '_', ':', '#', '=', '<', '>', '(', ')', ',', '.', '[', ']', '+', '-', '!', '"', '\'', '*', '/', ';', '\\', '{', '|', '~', 0x7f, 0x80, 0xc3, 0xff, '\n', '\t'}
	for _, h := range hosts {
		for pos := 0; pos <= len(h); pos++ {
			for b := 0; b < 256; b++ {
				emit(h[:pos]+string([]byte{byte(b)})+h[pos:], "embedded-byte")
			}
			for _, x := range reps {
				for _, y := range reps {
					if thorough || x == 0 || y == 0 {
						emit(h[:pos]+string([]byte{x, y})+h[pos:], "embedded-bytes")
					}
				}
			}
		}
	}
	// (c) pumped sentences up to 4096 bytes (directed, not exhaustive): nesting, operand lists,
	// action lists, long operators chains; valid and broken variants
	for _, n := range []int{1, 2, 10, 100, 500, 1300} {
		emit(strings.Repeat("(", n)+"a = :v"+strings.Repeat(")", n), "pumped")
		emit(strings.Repeat("(", n)+"a = :v"+strings.Repeat(")", n-1), "pumped")
		emit(strings.Repeat("NOT ", n)+"a = :v", "pumped")
		emit("a = :v"+strings.Repeat(" AND a = :v", n), "pumped")
		emit("a = :v"+strings.Repeat(" AND a = :v", n)+" AND", "pumped")
		emit("a IN (:v"+strings.Repeat(", :v", n)+")", "pumped")
		emit("a IN (:v"+strings.Repeat(", :v", n), "pumped")
		emit("SET a = :v"+strings.Repeat(", a = :v", n), "pumped")
		emit("SET a = :v"+strings.Repeat(", a = :v", n)+",", "pumped")
		emit("REMOVE a"+strings.Repeat(", l[0]", n), "pumped")
		emit("a"+strings.Repeat(".a", n)+" = :v", "pumped")
		emit("l"+strings.Repeat("[0]", n)+" = :v", "pumped")
		emit("SET a = a"+strings.Repeat(" + :v", n), "pumped")
		emit(strings.Repeat("a = :v ", n), "pumped")
		emit(strings.Repeat("attribute_exists(", n)+"a"+strings.Repeat(")", n), "pumped")
	}
	// function arities
	for _, fn := range []string{"attribute_exists", "attribute_not_exists", "attribute_type", "begins_with", "contains", "size", "if_not_exists", "list_append", "nosuchfn"} {
		for _, args := range []string{"", "a", "a, :v", "a, :v, :v", ":v", "a a", ","} {
			emit(fn+"("+args+")", "function-arity")
			emit(fn+"("+args+") = :v", "function-arity")
			emit("SET a = "+fn+"("+args+")", "function-arity")
		}
	}
	// (d) every operand position of every sentence form filled with something that is not an
	// operand (a condition, a keyword, a function name, an action): malformed however the item
	// looks, in particular when the other operand is absent and evaluation could stop early
	{
		forms := [][]string{
			{"", " = ", ""}, {"", " <> ", ""}, {"", " < ", ""}, {"", " IN (", ", ", ")"}, {"", " IN (", ")"}, {"", " BETWEEN ", " AND ", ""},
			{"attribute_exists(", ")"}, {"attribute_not_exists(", ")"}, {"attribute_type(", ", ", ")"}, {"begins_with(", ", ", ")"}, {"contains(", ", ", ")"}, {"size(", ") = ", ""},
			{"NOT ", " = ", ""}, {"", " = ", " AND ", " <> ", ""}, {"", " = ", " OR NOT ", " IN (", ")"},
			{"SET a = ", ""}, {"SET a = ", " + ", ""}, {"SET a = if_not_exists(", ", ", ")"}, {"SET a = list_append(", ", ", ")"}, {"SET ", " = :v"}, {"ADD ", " ", ""}, {"DELETE ", " ", ""}, {"REMOVE ", ""}, {"REMOVE a, ", ""},
		}
		operands := []string{"a", "zz", ":v", "m.a", "l[0]"}
		fillers := []string{"a = :v", "zz = :v", "a <> :v", "a < :v", "a <= :v", "a > :v", "a >= :v", "a = :v AND a = :v", "a = :v OR a = :v", "zz = :v OR a = :v", "a BETWEEN :v AND :v", "NOT a", "NOT zz", "a AND a", "(a = :v)", "size", "SET", "AND", "IN", "attribute_exists(a)", "attribute_exists(zz)", "nosuchfn(a)", "a IN (:v)", "SET a = :v", "", ","}
		for _, f := range forms {
			slots := len(f) - 1
			for bad := 0; bad < slots; bad++ {
				for _, fill := range fillers {
					for _, o1 := range operands {
						for _, o2 := range operands[:3] {
							var sb strings.Builder
							for i, part := range f {
								sb.WriteString(part)
								if i < slots {
									switch {
									case i == bad:
										sb.WriteString(fill)
									case (i+bad)%2 == 0:
										sb.WriteString(o1)
									default:
										sb.WriteString(o2)
									}
								}
							}
							emit(sb.String(), "operand-replaced")
						}
					}
				}
			}
		}
	}
	// (e) list positions: everything that can be written between the brackets, on a list, a map,
	// a number and an absent attribute, in reading and in writing positions
	for _, host := range []string{"l", "m", "a", "zz", "m.a", "l[0]"} {
		for _, idx := range []string{":v", "#n", "a", "0", "1", "2", "-1", "- 1", "01", "1.5", "1e2", "99999999999999999999", "4294967296", "9223372036854775807", "", " ", "0,1", "0][1", ":v + 1", "size(l)"} {
			for _, form := range []string{"%s[%s] = :v", "attribute_exists(%s[%s])", "size(%s[%s]) = :v", "SET %s[%s] = :v", "SET a = %s[%s]", "REMOVE %s[%s]", "ADD %s[%s] :v", "SET %s[%s].x = :v", "REMOVE %s[%s][0]"} {
				emit(fmt.Sprintf(form, host, idx), "list-position")
			}
		}
	}
	emit("", "empty")
	emit(" ", "empty")
	close(ch)
	wg.Wait()

	// client API: a rejected expression surfaces as an error or as the documented panic carrying
	// the syntax error, never as a silently successful call. Non-sentences of length <= 3 over
	// the core alphabet plus the directed ones, on a table that holds one item.
	var clientEvals int64
	var cl []string
	var rec2 func(cur []string, max int)
	rec2 = func(cur []string, max int) {
		if len(cur) > 0 {
			cl = append(cl, strings.Join(cur, " "))
		}
		if len(cur) == max {
			return
		}
		for _, t := range c09Core {
			rec2(append(cur, t), max)
		}
	}
	cmax := 3
	if thorough {
		cmax = 4
	}
	rec2(nil, cmax)
	cl = append(cl, "", "a = :v a = :v", "a = :v and a = :v", "a = :v\x00junk", "SET a = :v\x00junk", "attribute_exists()", "begins_with(a)", "SET a = :v b = :v", "SET a = :v,", "a = :v)", "(a = :v")
	cch := make(chan string, 1024)
	var cwg sync.WaitGroup
	for w := 0; w < 16; w++ {
		cwg.Add(1)
		go func() {
			defer cwg.Done()
			for s := range cch {
				for _, d := range Drivers {
					for _, kind := range []string{"PutItem-condition", "Scan-filter", "Query-key-condition", "UpdateItem-update", "DeleteItem-condition"} {
						sentence := rx.IsCondSentence(s)
						if kind == "UpdateItem-update" {
							sentence = rx.IsUpdateSentence(s)
						}
						if sentence {
							continue
						}
						impl := d.New()
						ev.Breadcrumb(fmt.Sprintf("client %s %s %q", d.Name, kind, s))
						impl.Do(drv.Op{K: drv.KCreate, Table: "tab", Cfg: &drv.TableCfg{Hash: "h", HashT: "S", Billing: "PAY_PER_REQUEST"}})
						impl.Do(drv.Op{K: drv.KPut, Table: "tab", Item: val.Item{"h": val.S("k"), "a": val.N("1")}})
						vals := map[string]val.V{}
						if strings.Contains(s, ":v") {
							vals[":v"] = val.N("1")
						}
						if len(vals) == 0 {
							vals = nil
						}
						var r drv.Resp
						str := s
						switch kind {
						case "PutItem-condition":
							r = impl.Do(drv.Op{K: drv.KPut, Table: "tab", Item: val.Item{"h": val.S("k"), "a": val.N("2")}, CondStr: &str, Values: vals})
						case "DeleteItem-condition":
							r = impl.Do(drv.Op{K: drv.KDel, Table: "tab", Key: val.Item{"h": val.S("k")}, CondStr: &str, Values: vals})
						case "Scan-filter":
							r = impl.Do(drv.Op{K: drv.KScan, Table: "tab", FiltStr: &str, Values: vals})
						case "Query-key-condition":
							r = impl.Do(drv.Op{K: drv.KQuery, Table: "tab", KeyStr: &str, Values: vals})
						case "UpdateItem-update":
							r = impl.Do(drv.Op{K: drv.KUpd, Table: "tab", Key: val.Item{"h": val.S("k")}, UpdStr: &str, Values: vals})
						}
						atomic.AddInt64(&clientEvals, 1)
						g := "cond"
						if kind == "UpdateItem-update" {
							g = "update"
						}
						switch {
						case r.Err == "":
							if strings.TrimSpace(s) == "" && kind != "UpdateItem-update" {
								continue // an empty optional expression means "no expression"
							}
							run.Report(fmt.Sprintf("C09|client|%s|non-sentence-silently-successful|%s@%s", kind, rejectWhy(g, s), d.Name), fmt.Sprintf("%s with %q succeeded", kind, s), map[string]interface{}{"driver": d.Name, "kind": kind, "expression": s})
						case r.Err == drv.EPanicRT:
							run.Report(fmt.Sprintf("C09|client|%s|runtime-panic|%s@%s", kind, panicClass(r.Msg), d.Name), fmt.Sprintf("%s with %q: %s", kind, s, r.Msg), map[string]interface{}{"driver": d.Name, "kind": kind, "expression": s})
						}
					}
				}
			}
		}()
	}
	for _, s := range cl {
		cch <- s
	}
	close(cch)
	cwg.Wait()

	return map[string]interface{}{
		"evaluations":                st.evals + clientEvals,
		"distinct_nontrivial":        distinct,
		"interpreter_evaluations":    st.evals,
		"client_api_evaluations":     clientEvals,
		"sentences_by_reference":     st.sentences,
		"rejected_by_implementation": st.rejected,
		"accepted_by_implementation": st.accepted,
		"rule":                       fmt.Sprintf("(a) every token string up to length %d over the %d-token alphabet and up to length %d over its %d-token core, joined with and without blanks; (b) every byte string of length 1 and 2 standalone, every byte (and pairs over %d representative bytes incl. NUL and high bytes) embedded at every position of three valid sentences; (c) pumped sentences up to 4 KB and function-arity variants (directed); (d) every operand position of 24 sentence forms (comparators, IN, BETWEEN, the functions, boolean combinations, SET/ADD/DELETE/REMOVE) filled with each of 27 non-operands (conditions, keywords, unknown functions, actions, nothing) next to present and absent operands; (e) 20 spellings of a list position (placeholders, negative, fractional, huge, empty, compound) in 9 reading and writing forms on a list, a map, a number and an absent attribute; each in both grammars against a typed item and an empty item, and strings that mention :v also with :v bound to -1, 1e30, 0.5, a string and a list through interpreter.Language.Match/Update; non-sentences up to length %d over the core alphabet through five client API entry points of both SDK clients. A string is distinct by its bytes", maxLen, len(c09Alphabet), coreLen, len(c09Core), len(reps), cmax),
		"oracle":                     "no panic; termination (supervisor stall cap); a string the generous reference recogniser rejects (unknown character, incomplete, unbalanced, trailing or juxtaposed tokens, lower-case keyword taken for a name) must be rejected; at the client API: an error or the documented panic carrying the syntax error, never a successful call",
		"samples":                    []interface{}{"a = :v and a = :v", "( a = :v", "SET a = :v , ", "a = :v\u0000junk", strings.Join(c09Alphabet, " ")},
		"exhaustive":                 true,
		"limit":                      "strings longer than the token bound are covered only by the directed pumped sentences",
	}
}

// evSetQuiet publishes the in-flight case without touching the progress counter too often.
func evSetQuiet(w int, grammar, s string) {
	if len(s) > 200 {
		s = s[:200]
	}
	ev.SetInFlight(w, grammar+" "+fmt.Sprintf("%q", s))
}
