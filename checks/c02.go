package checks

import (
	"fmt"
	"sort"
	"strings"
	"sync/atomic"

	"verif/drv"
	"verif/ev"
	"verif/mc"
	"verif/model"
	"verif/rx"
	"verif/val"
)

func init() {
	Registry["C02"] = C02
	Registry["C04"] = C04
}

// qcfg is one table configuration with its item universe and the value alphabets of the query
// menu.
type qcfg struct {
	name     string
	cfg      drv.TableCfg
	universe []val.Item
	// alphabets for key conditions, per (index name -> hash values / range values)
	hashVals  map[string][]val.V
	rangeVals map[string][]val.V
	prefixes  map[string][]val.V // begins_with operands (S sort keys only)
}

func sv(xs ...string) []val.V {
	o := make([]val.V, len(xs))
	for i, x := range xs {
		o[i] = val.S(x)
	}
	return o
}

func nv(xs ...string) []val.V {
	o := make([]val.V, len(xs))
	for i, x := range xs {
		o[i] = val.N(x)
	}
	return o
}

func queryConfigs(thorough bool) []qcfg {
	it := func(kv ...interface{}) val.Item {
		o := val.Item{}
		for i := 0; i+1 < len(kv); i += 2 {
			o[kv[i].(string)] = kv[i+1].(val.V)
		}
		return o
	}
	a := qcfg{
		name: "HR(S,S)+GSI(g,s)+LSI(h,s)",
		cfg: drv.TableCfg{Hash: "h", HashT: "S", Range: "r", RangeT: "S", Billing: "PAY_PER_REQUEST",
			GSI: []drv.IndexCfg{{Name: "gsi", Hash: "g", HashT: "S", Range: "s", RangeT: "S"}},
			LSI: []drv.IndexCfg{{Name: "lsi", Hash: "h", HashT: "S", Range: "s", RangeT: "S", Local: true}}},
		universe: []val.Item{
			it("h", val.S("p"), "r", val.S("a"), "g", val.S("x"), "s", val.S("1"), "a", val.S("v")),
			it("h", val.S("p"), "r", val.S("ab"), "g", val.S("x"), "s", val.S("1")),
			// (a sort key beginning with a code point beyond U+FFFF: it sorts after every "sentinel" a
			// range computation over key strings might use)
			it("h", val.S("p"), "r", val.S("\U0001F600b"), "a", val.S("w")),
			it("h", val.S("p.q"), "r", val.S("a"), "g", val.S("x"), "s", val.S("0"), "a", val.S("v")),
			it("h", val.S("p"), "r", val.S("a.b"), "g", val.S("y"), "s", val.S("2")),
		},
		hashVals:  map[string][]val.V{"": sv("p", "p.q", "zz"), "gsi": sv("x", "y", "zz"), "lsi": sv("p", "p.q")},
		rangeVals: map[string][]val.V{"": sv("a", "ab", "\U0001F600b", "a.b", "aa", "\uffff"), "gsi": sv("0", "1", "2", "11"), "lsi": sv("0", "1", "2")},
		prefixes:  map[string][]val.V{"": sv("a", "ab", "\U0001F600", "a.", "z"), "gsi": sv("1", "x"), "lsi": sv("1")},
	}
	if thorough {
		a.universe = append(a.universe,
			it("h", val.S("p.q"), "r", val.S("b"), "g", val.S("y"), "s", val.S("2"), "a", val.S("v")),
			it("h", val.S("p"), "r", val.S("\uffffc"), "g", val.S("x")),
		)
		a.rangeVals[""] = append(a.rangeVals[""], val.S("\uffffc"))
	}
	b := qcfg{
		name: "HR(S,N)+GSI(g,n)",
		// (gsinv is keyed on the table's own key attributes in the other order: every item is in it)
		cfg: drv.TableCfg{Hash: "h", HashT: "S", Range: "r", RangeT: "N", Billing: "PAY_PER_REQUEST",
			GSI: []drv.IndexCfg{{Name: "gsi", Hash: "g", HashT: "S", Range: "n", RangeT: "N"}, {Name: "gsinv", Hash: "r", HashT: "N", Range: "h", RangeT: "S"}}},
		universe: []val.Item{
			it("h", val.S("p"), "r", val.N("1"), "g", val.S("x"), "n", val.N("5"), "a", val.S("v")),
			it("h", val.S("p"), "r", val.N("2"), "g", val.S("x"), "n", val.N("5")),
			it("h", val.S("p"), "r", val.N("10"), "a", val.S("w")),
			it("h", val.S("p"), "r", val.N("9"), "g", val.S("x"), "n", val.N("40"), "a", val.S("v")),
			it("h", val.S("q"), "r", val.N("1"), "g", val.S("y"), "n", val.N("7")),
		},
		hashVals:  map[string][]val.V{"": sv("p", "q", "zz"), "gsi": sv("x", "y"), "gsinv": nv("1", "10", "3")},
		rangeVals: map[string][]val.V{"": nv("1", "2", "10", "9", "5"), "gsi": nv("5", "40", "7", "6"), "gsinv": sv("p", "q")},
		prefixes:  map[string][]val.V{"gsinv": sv("p")},
	}
	if thorough {
		b.universe = append(b.universe,
			it("h", val.S("p"), "r", val.N("-3"), "g", val.S("x"), "n", val.N("-1")),
			it("h", val.S("q"), "r", val.N("100"), "g", val.S("x"), "n", val.N("5"), "a", val.S("v")),
		)
		b.rangeVals[""] = append(b.rangeVals[""], val.N("-3"), val.N("100"))
	}
	// index keys that are prefixes of one another followed by a character sorting before, at and
	// after the separator '.' the implementation uses inside its key strings: an ordering of index
	// entries by a concatenated string instead of by (index key, primary key) diverges exactly here
	c := qcfg{
		name: "H(S)+GSI(g)+GSI(g,s) separator-adjacent keys",
		cfg: drv.TableCfg{Hash: "h", HashT: "S", Billing: "PAY_PER_REQUEST",
			GSI: []drv.IndexCfg{{Name: "gsi", Hash: "g", HashT: "S"}, {Name: "gs2", Hash: "g", HashT: "S", Range: "s", RangeT: "S"}}},
		universe: []val.Item{
			it("h", val.S("k1"), "g", val.S("t"), "s", val.S("2024"), "a", val.S("v")),
			it("h", val.S("k2"), "g", val.S("t-a"), "s", val.S("2024"), "a", val.S("w")),
			it("h", val.S("k3"), "g", val.S("t"), "s", val.S("2024-01")),
			it("h", val.S("k4"), "g", val.S("t"), "s", val.S("2024.1"), "a", val.S("v")),
			it("h", val.S("k5"), "g", val.S("t a"), "s", val.S("2024/1")),
			// an item that consists of its key alone (in no index; ends pages of the base table)
			it("h", val.S("k2x")),
		},
		hashVals:  map[string][]val.V{"": sv("k1", "k3", "k2x", "zz"), "gsi": sv("t", "t-a", "t a", "t.a"), "gs2": sv("t", "t-a", "t a")},
		rangeVals: map[string][]val.V{"gs2": sv("2024", "2024-01", "2024.1", "2024/1", "2024-")},
		prefixes:  map[string][]val.V{"gs2": sv("2024", "2024-", "2024.")},
	}
	if thorough {
		c.universe = append(c.universe,
			it("h", val.S("k1-x"), "g", val.S("t"), "s", val.S("2024"), "a", val.S("v")),
			it("h", val.S("k1.x"), "g", val.S("t.a"), "s", val.S("2024-01")),
		)
		c.hashVals[""] = append(c.hashVals[""], val.S("k1-x"), val.S("k1.x"))
	}
	return []qcfg{a, b, c}
}

type filterSpec struct {
	name   string
	c      *rx.Cond
	values map[string]val.V
}

func queryFilters() []filterSpec {
	return []filterSpec{
		{"none", nil, nil},
		{"a=:x", rx.Eq("a", ":x"), map[string]val.V{":x": val.S("v")}},
		{"attribute_exists(a)", rx.Exists("a"), nil},
	}
}

// queryMenu builds every Query/Scan request of the menu for one configuration.
func queryMenu(c qcfg, reduced bool) []drv.Op {
	var ops []drv.Op
	type ix struct{ name, hash, rng string }
	idxs := []ix{{"", c.cfg.Hash, c.cfg.Range}}
	for _, g := range c.cfg.GSI {
		idxs = append(idxs, ix{g.Name, g.Hash, g.Range})
	}
	for _, g := range c.cfg.LSI {
		idxs = append(idxs, ix{g.Name, g.Hash, g.Range})
	}
	filters := queryFilters()
	if reduced {
		filters = filters[:2]
	}
	for _, x := range idxs {
		var kcs []struct {
			tag string
			c   *rx.Cond
			v   map[string]val.V
		}
		addKC := func(tag string, cnd *rx.Cond, v map[string]val.V) {
			kcs = append(kcs, struct {
				tag string
				c   *rx.Cond
				v   map[string]val.V
			}{tag, cnd, v})
		}
		for _, hv := range c.hashVals[x.name] {
			hc := rx.Eq(x.hash, ":hv")
			addKC("hash", hc, map[string]val.V{":hv": hv})
			if x.rng == "" {
				continue
			}
			rvs := c.rangeVals[x.name]
			for _, op := range []string{"=", "<", "<=", ">", ">="} {
				if reduced && (op == "<=" || op == ">") {
					continue
				}
				for _, rv := range rvs {
					addKC("hash AND range"+op, rx.And(hc, rx.Cmp(op, rx.OpP(x.rng), rx.OpV(":rv"))), map[string]val.V{":hv": hv, ":rv": rv})
				}
			}
			for i, lo := range rvs {
				for j, hi := range rvs {
					if reduced && (i+j)%3 != 0 {
						continue
					}
					addKC("hash AND BETWEEN", rx.And(hc, rx.Between(rx.OpP(x.rng), rx.OpV(":lo"), rx.OpV(":hi"))), map[string]val.V{":hv": hv, ":lo": lo, ":hi": hi})
				}
			}
			for _, p := range c.prefixes[x.name] {
				addKC("hash AND begins_with", rx.And(hc, rx.BeginsWith(x.rng, ":p")), map[string]val.V{":hv": hv, ":p": p})
			}
		}
		for _, f := range filters {
			for _, kc := range kcs {
				for _, rev := range []bool{false, true} {
					dir := "fwd"
					if rev {
						dir = "rev"
					}
					ops = append(ops, drv.Op{K: drv.KQuery, Tag: fmt.Sprintf("Query[%s|%s|filter %s|%s]", idxKind(x.name), kc.tag, f.name, dir), Table: "tab", Index: x.name,
						KeyCond: kc.c, Filter: f.c, Values: mergeVals(kc.v, f.values), Reverse: rev})
				}
			}
			ops = append(ops, drv.Op{K: drv.KScan, Tag: fmt.Sprintf("Scan[%s|filter %s]", idxKind(x.name), f.name), Table: "tab", Index: x.name, Filter: f.c, Values: mergeVals(f.values)})
		}
	}
	return ops
}

func idxKind(n string) string {
	switch n {
	case "":
		return "base"
	case "lsi":
		return "LSI"
	}
	return "GSI"
}

func universeAlphabet(c qcfg) func(m *model.Model) []drv.Op {
	return func(m *model.Model) []drv.Op {
		var ops []drv.Op
		for _, it := range c.universe {
			ops = append(ops, drv.Op{K: drv.KPut, Tag: "Put", Table: "tab", Item: it.Clone()})
			k := val.Item{c.cfg.Hash: it[c.cfg.Hash]}
			if c.cfg.Range != "" {
				k[c.cfg.Range] = it[c.cfg.Range]
			}
			ops = append(ops, drv.Op{K: drv.KDel, Tag: "Del", Table: "tab", Key: k})
			// the same item written by an UpdateItem (which creates it when the key is absent)
			{
				var acts []rx.Action
				vals := map[string]val.V{}
				names := make([]string, 0, len(it))
				for n := range it {
					if n != c.cfg.Hash && n != c.cfg.Range {
						names = append(names, n)
					}
				}
				sort.Strings(names)
				for _, n := range names {
					acts = append(acts, rx.Set(n, rx.RV(":"+n)))
					vals[":"+n] = it[n]
				}
				if len(acts) > 0 {
					ops = append(ops, drv.Op{K: drv.KUpd, Tag: "Upd(sets every attribute)", Table: "tab", Key: k, Upd: rx.U(acts...), Values: vals})
				}
			}
			// writes that are rejected because of an index key type (on stored and on absent keys):
			// whatever they leave behind shows in the queries of the states that follow
			if len(c.cfg.GSI) > 0 {
				g := c.cfg.GSI[0]
				bad := val.N("5")
				if g.HashT == "N" {
					bad = val.S("x")
				}
				ops = append(ops, drv.Op{K: drv.KUpd, Tag: "Upd(rejected: index key type)", Table: "tab", Key: k, Upd: rx.U(rx.Set(g.Hash, rx.RV(":bad"))), Values: map[string]val.V{":bad": bad}})
				w := it.Clone()
				w[g.Hash] = bad
				ops = append(ops, drv.Op{K: drv.KPut, Tag: "Put(rejected: index key type)", Table: "tab", Item: w})
			}
		}
		return ops
	}
}

// C02: Query and Scan return exactly the matching items, in sort-key order.
func C02(run *ev.Run, tier string) map[string]interface{} {
	thorough := tier == "thorough"
	dl := deadline(tier)
	var queries int64
	var nonEmpty int64
	menuSizes := map[string]int{}
	total, per := exploreBoth(run, func(newImpl func() drv.Driver, dn string) []mc.Sys {
		var out []mc.Sys
		for _, c := range queryConfigs(thorough) {
			c := c
			menu := queryMenu(c, false)
			menuSizes[c.name] = len(menu)
			out = append(out, mc.Sys{
				Name:     "C02/" + c.name,
				NewImpl:  newImpl,
				Init:     []drv.Op{{K: drv.KCreate, Table: "tab", Cfg: &c.cfg}},
				Alphabet: universeAlphabet(c),
				Observe:  func(m *model.Model) []drv.Op { return nil },
				SigOf:    mc.DefaultSig("C02"),
				OnNewState: func(sc mc.StateCtx) []mc.Extra {
					var xs []mc.Extra
					seen := map[string]bool{}
					for _, q := range menu {
						g := sc.Impl.Do(q)
						w := sc.Model.Do(q)
						atomic.AddInt64(&queries, 1)
						if len(w.Items) > 0 {
							atomic.AddInt64(&nonEmpty, 1)
						}
						if d := drv.Compare(q, g, w); d != nil {
							sig := fmt.Sprintf("C02|%s|%s|%s", c.name, q.Tag, d.Kind)
							if strings.HasSuffix(d.Kind, "|order|N") || strings.HasSuffix(d.Kind, "|order|B") {
								// attribute to the "keys are ordered as text" finding only when the
								// implementation's sequence is exactly what that defect model predicts
								sig = fmt.Sprintf("C02|%s|%s|explained-by-text-order=%v", c.name, d.Kind, textOrdered(g.Items, w.SortAttr, q.Reverse))
							}
							if !seen[sig] {
								seen[sig] = true
								xs = append(xs, mc.Extra{Sig: sig, Detail: d.String(), Op: q, Got: g.Short(), Want: w.Short()})
							}
						}
					}
					return xs
				},
				MaxStates: 100000,
				Deadline:  dl,
			})
		}
		return out
	})
	cov := total.Coverage()
	cov["per_system"] = per
	cov["queries_compared"] = queries
	cov["queries_with_nonempty_expected_result"] = nonEmpty
	cov["query_menu_sizes"] = menuSizes
	cov["alphabet"] = "states: every content reachable by Put/Del over the item universe (closure = all subsets), two configurations (string sort keys that are prefixes of one another / contain the separator, with a tie-carrying sparse GSI and LSI; number sort keys 1,2,10,9); in every state the whole query menu: partition equality alone or with =,<,<=,>,>= / BETWEEN (all ordered pairs) / begins_with on the sort key, values drawn from the universe plus absent values; filters none, a=:x, attribute_exists(a); forward and reverse; base table, GSI, LSI; Scan with each filter on table and indexes"
	cov["oracle"] = "reference selection (key condition and filter evaluated from ASTs on every item of the sparse index view), sorted by the DynamoDB order of the sort key; the implementation's result must be that sequence up to permutation inside runs of equal sort key; Scan: multiset equality; Count == len(Items)"
	return cov
}

// textOrdered reports whether the items are ordered by the literal text of the sort attribute
// (the defect model "number and binary sort keys are ordered as strings").
func textOrdered(items []val.Item, attr string, reverse bool) bool {
	for i := 1; i < len(items); i++ {
		a, b := keyText(items[i-1][attr]), keyText(items[i][attr])
		if reverse {
			a, b = b, a
		}
		if a > b {
			return false
		}
	}
	return true
}
