package checks

import (
	"context"
	"errors"
	"fmt"
	"reflect"
	"sort"
	"sync"
	"sync/atomic"

	aws2 "github.com/aws/aws-sdk-go-v2/aws"
	ddb2 "github.com/aws/aws-sdk-go-v2/service/dynamodb"
	types2 "github.com/aws/aws-sdk-go-v2/service/dynamodb/types"
	aws1 "github.com/aws/aws-sdk-go/aws"
	ddb1 "github.com/aws/aws-sdk-go/service/dynamodb"
	v1c "github.com/truora/minidyn/aws-v1/client"
	v2c "github.com/truora/minidyn/aws-v2/client"
	itypes "github.com/truora/minidyn/types"

	"verif/drv"
	"verif/ev"
	"verif/val"
)

func init() { Registry["C14"] = C14 }

// mutation is one write to one mutable location of an SDK value tree.
type mutation struct {
	kind  string // location class, e.g. "*string(S)", "byte of B", "list element"
	apply func()
}

func mutsV1Item(m map[string]*ddb1.AttributeValue, out *[]mutation) {
	keys := make([]string, 0, len(m))
	for k := range m {
		keys = append(keys, k)
	}
	sort.Strings(keys)
	for _, k := range keys {
		k := k
		if k != "h" {
			*out = append(*out, mutation{"map entry replaced", func() { m[k] = &ddb1.AttributeValue{S: aws1.String("MUTATED")} }})
			*out = append(*out, mutation{"map entry deleted", func() { delete(m, k) }})
		}
		mutsV1(m[k], out)
	}
	*out = append(*out, mutation{"map entry added", func() { m["zzadded"] = &ddb1.AttributeValue{S: aws1.String("MUTATED")} }})
}

func mutsV1(a *ddb1.AttributeValue, out *[]mutation) {
	if a == nil {
		return
	}
	if a.S != nil {
		*out = append(*out, mutation{"*string(S)", func() { *a.S = "MUTATED" }})
	}
	if a.N != nil {
		*out = append(*out, mutation{"*string(N)", func() { *a.N = "424242" }})
	}
	if a.BOOL != nil {
		*out = append(*out, mutation{"*bool(BOOL)", func() { *a.BOOL = !*a.BOOL }})
	}
	if a.NULL != nil {
		*out = append(*out, mutation{"*bool(NULL)", func() { *a.NULL = !*a.NULL }})
	}
	for i := range a.B {
		i := i
		*out = append(*out, mutation{"byte of B", func() { a.B[i] ^= 0xff }})
	}
	for i := range a.BS {
		i := i
		*out = append(*out, mutation{"member of BS replaced", func() { a.BS[i] = []byte("MUTATED") }})
		for j := range a.BS[i] {
			j := j
			*out = append(*out, mutation{"byte of BS member", func() { a.BS[i][j] ^= 0xff }})
		}
	}
	for i := range a.SS {
		i := i
		*out = append(*out, mutation{"*string(SS member)", func() { *a.SS[i] = "MUTATED" }})
		*out = append(*out, mutation{"SS member replaced", func() { a.SS[i] = aws1.String("MUTATED2") }})
	}
	for i := range a.NS {
		i := i
		*out = append(*out, mutation{"*string(NS member)", func() { *a.NS[i] = "424242" }})
	}
	for i := range a.L {
		i := i
		*out = append(*out, mutation{"list element replaced", func() { a.L[i] = &ddb1.AttributeValue{S: aws1.String("MUTATED")} }})
		mutsV1(a.L[i], out)
	}
	if a.M != nil {
		keys := make([]string, 0, len(a.M))
		for k := range a.M {
			keys = append(keys, k)
		}
		sort.Strings(keys)
		for _, k := range keys {
			k := k
			*out = append(*out, mutation{"nested map entry replaced", func() { a.M[k] = &ddb1.AttributeValue{S: aws1.String("MUTATED")} }})
			mutsV1(a.M[k], out)
		}
		*out = append(*out, mutation{"nested map entry added", func() { a.M["zzadded"] = &ddb1.AttributeValue{S: aws1.String("MUTATED")} }})
	}
}

// libItemsInChain walks the error chain (Unwrap() error and Unwrap() []error) and returns the
// items, in the library's internal representation, that the errors of the chain carry.
func libItemsInChain(err error) []map[string]*itypes.Item {
	var out []map[string]*itypes.Item
	seen := map[error]bool{}
	var walk func(e error)
	walk = func(e error) {
		if e == nil {
			return
		}
		if reflect.TypeOf(e).Comparable() {
			if seen[e] {
				return
			}
			seen[e] = true
		}
		if x, ok := e.(*itypes.ConditionalCheckFailedException); ok && x.Item != nil {
			out = append(out, x.Item)
		}
		switch u := e.(type) {
		case interface{ Unwrap() error }:
			walk(u.Unwrap())
		case interface{ Unwrap() []error }:
			for _, c := range u.Unwrap() {
				walk(c)
			}
		}
	}
	walk(err)
	return out
}

// mutsLibItem enumerates the mutable locations of an item in the library's own representation.
func mutsLibItem(m map[string]*itypes.Item, out *[]mutation) {
	keys := make([]string, 0, len(m))
	for k := range m {
		keys = append(keys, k)
	}
	sort.Strings(keys)
	var one func(a *itypes.Item, where string)
	one = func(a *itypes.Item, where string) {
		if a == nil {
			return
		}
		switch {
		case a.S != nil:
			*out = append(*out, mutation{"library item (error chain): string behind pointer" + where, func() { *a.S = "MUTATED" }})
		case a.N != nil:
			*out = append(*out, mutation{"library item (error chain): number behind pointer" + where, func() { *a.N = "424242" }})
		case a.BOOL != nil:
			*out = append(*out, mutation{"library item (error chain): bool behind pointer" + where, func() { *a.BOOL = !*a.BOOL }})
		case a.B != nil:
			if len(a.B) > 0 {
				*out = append(*out, mutation{"library item (error chain): byte of B" + where, func() { a.B[0] ^= 0xff }})
			}
		case a.L != nil:
			for i := range a.L {
				one(a.L[i], where+" in list")
			}
			if len(a.L) > 0 {
				*out = append(*out, mutation{"library item (error chain): list element replaced" + where, func() { m := "MUTATED"; a.L[0] = &itypes.Item{S: &m} }})
			}
		case a.M != nil:
			for _, k := range sortedKeys(a.M) {
				one(a.M[k], where+" in map")
			}
			*out = append(*out, mutation{"library item (error chain): nested map entry added" + where, func() { m := "MUTATED"; a.M["zzadded"] = &itypes.Item{S: &m} }})
		case a.SS != nil:
			if len(a.SS) > 0 && a.SS[0] != nil {
				*out = append(*out, mutation{"library item (error chain): set member behind pointer" + where, func() { *a.SS[0] = "MUTATED" }})
			}
		case a.NS != nil:
			if len(a.NS) > 0 && a.NS[0] != nil {
				*out = append(*out, mutation{"library item (error chain): set member behind pointer" + where, func() { *a.NS[0] = "424242" }})
			}
		case a.BS != nil:
			if len(a.BS) > 0 && len(a.BS[0]) > 0 {
				*out = append(*out, mutation{"library item (error chain): byte of BS member" + where, func() { a.BS[0][0] ^= 0xff }})
			}
		}
	}
	for _, k := range keys {
		k := k
		one(m[k], "")
		if k != "h" {
			*out = append(*out, mutation{"library item (error chain): map entry replaced", func() { x := "MUTATED"; m[k] = &itypes.Item{S: &x} }})
			*out = append(*out, mutation{"library item (error chain): map entry deleted", func() { delete(m, k) }})
		}
	}
	*out = append(*out, mutation{"library item (error chain): map entry added", func() { x := "MUTATED"; m["zzadded"] = &itypes.Item{S: &x} }})
}

func sortedKeys(m map[string]*itypes.Item) []string {
	ks := make([]string, 0, len(m))
	for k := range m {
		ks = append(ks, k)
	}
	sort.Strings(ks)
	return ks
}

func mutsV2Item(m map[string]types2.AttributeValue, out *[]mutation) {
	keys := make([]string, 0, len(m))
	for k := range m {
		keys = append(keys, k)
	}
	sort.Strings(keys)
	for _, k := range keys {
		k := k
		if k != "h" {
			*out = append(*out, mutation{"map entry replaced", func() { m[k] = &types2.AttributeValueMemberS{Value: "MUTATED"} }})
			*out = append(*out, mutation{"map entry deleted", func() { delete(m, k) }})
		}
		mutsV2(m[k], out)
	}
	*out = append(*out, mutation{"map entry added", func() { m["zzadded"] = &types2.AttributeValueMemberS{Value: "MUTATED"} }})
}

func mutsV2(a types2.AttributeValue, out *[]mutation) {
	switch x := a.(type) {
	case *types2.AttributeValueMemberS:
		*out = append(*out, mutation{"member struct S.Value", func() { x.Value = "MUTATED" }})
	case *types2.AttributeValueMemberN:
		*out = append(*out, mutation{"member struct N.Value", func() { x.Value = "424242" }})
	case *types2.AttributeValueMemberBOOL:
		*out = append(*out, mutation{"member struct BOOL.Value", func() { x.Value = !x.Value }})
	case *types2.AttributeValueMemberNULL:
		*out = append(*out, mutation{"member struct NULL.Value", func() { x.Value = !x.Value }})
	case *types2.AttributeValueMemberB:
		for i := range x.Value {
			i := i
			*out = append(*out, mutation{"byte of B", func() { x.Value[i] ^= 0xff }})
		}
		*out = append(*out, mutation{"member struct B.Value replaced", func() { x.Value = []byte("MUTATED") }})
	case *types2.AttributeValueMemberBS:
		for i := range x.Value {
			i := i
			*out = append(*out, mutation{"member of BS replaced", func() { x.Value[i] = []byte("MUTATED") }})
			for j := range x.Value[i] {
				j := j
				*out = append(*out, mutation{"byte of BS member", func() { x.Value[i][j] ^= 0xff }})
			}
		}
	case *types2.AttributeValueMemberSS:
		for i := range x.Value {
			i := i
			*out = append(*out, mutation{"SS member replaced", func() { x.Value[i] = "MUTATED" }})
		}
	case *types2.AttributeValueMemberNS:
		for i := range x.Value {
			i := i
			*out = append(*out, mutation{"NS member replaced", func() { x.Value[i] = "424242" }})
		}
	case *types2.AttributeValueMemberL:
		for i := range x.Value {
			i := i
			*out = append(*out, mutation{"list element replaced", func() { x.Value[i] = &types2.AttributeValueMemberS{Value: "MUTATED"} }})
			mutsV2(x.Value[i], out)
		}
	case *types2.AttributeValueMemberM:
		keys := make([]string, 0, len(x.Value))
		for k := range x.Value {
			keys = append(keys, k)
		}
		sort.Strings(keys)
		for _, k := range keys {
			k := k
			*out = append(*out, mutation{"nested map entry replaced", func() { x.Value[k] = &types2.AttributeValueMemberS{Value: "MUTATED"} }})
			mutsV2(x.Value[k], out)
		}
		*out = append(*out, mutation{"nested map entry added", func() { x.Value["zzadded"] = &types2.AttributeValueMemberS{Value: "MUTATED"} }})
	}
}

// c14sdk abstracts the two clients at the SDK level: the caller keeps the SDK structures.
type c14sdk struct {
	name string
	// run executes one scenario on a fresh client with item `it` (key h=k, attribute v=tree) and
	// returns (a) the SDK structure handed to / received from the library, as a list of
	// mutations, and (b) a function that reads the stored item back through a fresh GetItem, and
	// (c) a function that converts the structure itself (for "outputs are not changed later").
	run func(scenario string, it val.Item) (muts []mutation, readBack func() val.Item, structNow func() val.Item, laterWrite func(), ok bool)
}

var c14Scenarios = []string{"input:PutItem", "input:UpdateItem-values", "input:BatchWriteItem", "output:GetItem", "output:Query", "output:Scan", "output:UpdateItem", "output:ConditionalCheckFailed.Item"}

func c14V1() c14sdk {
	return c14sdk{name: "v1", run: func(sc string, it val.Item) ([]mutation, func() val.Item, func() val.Item, func(), bool) {
		c := v1c.NewClient()
		if err := v1c.AddTable(c, "tab", "h", ""); err != nil {
			return nil, nil, nil, nil, false
		}
		key := func() map[string]*ddb1.AttributeValue {
			return map[string]*ddb1.AttributeValue{"h": {S: aws1.String("k")}}
		}
		readBack := func() val.Item {
			o, err := c.GetItem(&ddb1.GetItemInput{TableName: aws1.String("tab"), Key: key()})
			if err != nil {
				return val.Item{"error": val.S(err.Error())}
			}
			return drv.ItemFromV1(o.Item)
		}
		laterWrite := func() {
			c.PutItem(&ddb1.PutItemInput{TableName: aws1.String("tab"), Item: map[string]*ddb1.AttributeValue{"h": {S: aws1.String("k")}, "v": {S: aws1.String("overwritten later")}}})
			c.UpdateItem(&ddb1.UpdateItemInput{TableName: aws1.String("tab"), Key: key(), UpdateExpression: aws1.String("SET w = :w"), ExpressionAttributeValues: map[string]*ddb1.AttributeValue{":w": {S: aws1.String("w")}}})
		}
		var held map[string]*ddb1.AttributeValue
		switch sc {
		case "input:PutItem":
			held = drv.ItemToV1(it)
			if _, err := c.PutItem(&ddb1.PutItemInput{TableName: aws1.String("tab"), Item: held}); err != nil {
				return nil, nil, nil, nil, false
			}
		case "input:UpdateItem-values":
			held = map[string]*ddb1.AttributeValue{":val": drv.ToV1(it["v"])}
			if _, err := c.UpdateItem(&ddb1.UpdateItemInput{TableName: aws1.String("tab"), Key: key(), UpdateExpression: aws1.String("SET v = :val"), ExpressionAttributeValues: held}); err != nil {
				return nil, nil, nil, nil, false
			}
		case "input:BatchWriteItem":
			held = drv.ItemToV1(it)
			if _, err := c.BatchWriteItem(&ddb1.BatchWriteItemInput{RequestItems: map[string][]*ddb1.WriteRequest{"tab": {{PutRequest: &ddb1.PutRequest{Item: held}}}}}); err != nil {
				return nil, nil, nil, nil, false
			}
		default:
			if _, err := c.PutItem(&ddb1.PutItemInput{TableName: aws1.String("tab"), Item: drv.ItemToV1(it)}); err != nil {
				return nil, nil, nil, nil, false
			}
			switch sc {
			case "output:GetItem":
				o, err := c.GetItem(&ddb1.GetItemInput{TableName: aws1.String("tab"), Key: key()})
				if err != nil {
					return nil, nil, nil, nil, false
				}
				held = o.Item
			case "output:Query":
				o, err := c.Query(&ddb1.QueryInput{TableName: aws1.String("tab"), KeyConditionExpression: aws1.String("h = :k"), ExpressionAttributeValues: map[string]*ddb1.AttributeValue{":k": {S: aws1.String("k")}}})
				if err != nil || len(o.Items) != 1 {
					return nil, nil, nil, nil, false
				}
				held = o.Items[0]
			case "output:Scan":
				o, err := c.Scan(&ddb1.ScanInput{TableName: aws1.String("tab")})
				if err != nil || len(o.Items) != 1 {
					return nil, nil, nil, nil, false
				}
				held = o.Items[0]
			case "output:UpdateItem":
				o, err := c.UpdateItem(&ddb1.UpdateItemInput{TableName: aws1.String("tab"), Key: key(), UpdateExpression: aws1.String("SET w = :w"), ExpressionAttributeValues: map[string]*ddb1.AttributeValue{":w": {S: aws1.String("w")}}, ReturnValues: aws1.String("ALL_NEW")})
				if err != nil {
					return nil, nil, nil, nil, false
				}
				held = o.Attributes
			default:
				return nil, nil, nil, nil, false // ConditionalCheckFailed.Item cannot be requested through SDK v1
			}
		}
		var muts []mutation
		mutsV1Item(held, &muts)
		return muts, readBack, func() val.Item { return drv.ItemFromV1(held) }, laterWrite, true
	}}
}

func c14V2() c14sdk {
	ctx := context.Background()
	return c14sdk{name: "v2", run: func(sc string, it val.Item) ([]mutation, func() val.Item, func() val.Item, func(), bool) {
		c := v2c.NewClient()
		if err := v2c.AddTable(ctx, c, "tab", "h", ""); err != nil {
			return nil, nil, nil, nil, false
		}
		key := func() map[string]types2.AttributeValue {
			return map[string]types2.AttributeValue{"h": &types2.AttributeValueMemberS{Value: "k"}}
		}
		readBack := func() val.Item {
			o, err := c.GetItem(ctx, &ddb2.GetItemInput{TableName: aws2.String("tab"), Key: key()})
			if err != nil {
				return val.Item{"error": val.S(err.Error())}
			}
			return drv.ItemFromV2(o.Item)
		}
		laterWrite := func() {
			c.PutItem(ctx, &ddb2.PutItemInput{TableName: aws2.String("tab"), Item: map[string]types2.AttributeValue{"h": &types2.AttributeValueMemberS{Value: "k"}, "v": &types2.AttributeValueMemberS{Value: "overwritten later"}}})
			c.UpdateItem(ctx, &ddb2.UpdateItemInput{TableName: aws2.String("tab"), Key: key(), UpdateExpression: aws2.String("SET w = :w"), ExpressionAttributeValues: map[string]types2.AttributeValue{":w": &types2.AttributeValueMemberS{Value: "w"}}})
		}
		var held map[string]types2.AttributeValue
		switch sc {
		case "input:PutItem":
			held = drv.ItemToV2(it)
			if _, err := c.PutItem(ctx, &ddb2.PutItemInput{TableName: aws2.String("tab"), Item: held}); err != nil {
				return nil, nil, nil, nil, false
			}
		case "input:UpdateItem-values":
			held = map[string]types2.AttributeValue{":val": drv.ToV2(it["v"])}
			if _, err := c.UpdateItem(ctx, &ddb2.UpdateItemInput{TableName: aws2.String("tab"), Key: key(), UpdateExpression: aws2.String("SET v = :val"), ExpressionAttributeValues: held}); err != nil {
				return nil, nil, nil, nil, false
			}
		case "input:BatchWriteItem":
			held = drv.ItemToV2(it)
			if _, err := c.BatchWriteItem(ctx, &ddb2.BatchWriteItemInput{RequestItems: map[string][]types2.WriteRequest{"tab": {{PutRequest: &types2.PutRequest{Item: held}}}}}); err != nil {
				return nil, nil, nil, nil, false
			}
		default:
			if _, err := c.PutItem(ctx, &ddb2.PutItemInput{TableName: aws2.String("tab"), Item: drv.ItemToV2(it)}); err != nil {
				return nil, nil, nil, nil, false
			}
			switch sc {
			case "output:GetItem":
				o, err := c.GetItem(ctx, &ddb2.GetItemInput{TableName: aws2.String("tab"), Key: key()})
				if err != nil {
					return nil, nil, nil, nil, false
				}
				held = o.Item
			case "output:Query":
				o, err := c.Query(ctx, &ddb2.QueryInput{TableName: aws2.String("tab"), KeyConditionExpression: aws2.String("h = :k"), ExpressionAttributeValues: map[string]types2.AttributeValue{":k": &types2.AttributeValueMemberS{Value: "k"}}})
				if err != nil || len(o.Items) != 1 {
					return nil, nil, nil, nil, false
				}
				held = o.Items[0]
			case "output:Scan":
				o, err := c.Scan(ctx, &ddb2.ScanInput{TableName: aws2.String("tab")})
				if err != nil || len(o.Items) != 1 {
					return nil, nil, nil, nil, false
				}
				held = o.Items[0]
			case "output:UpdateItem":
				o, err := c.UpdateItem(ctx, &ddb2.UpdateItemInput{TableName: aws2.String("tab"), Key: key(), UpdateExpression: aws2.String("SET w = :w"), ExpressionAttributeValues: map[string]types2.AttributeValue{":w": &types2.AttributeValueMemberS{Value: "w"}}, ReturnValues: types2.ReturnValueAllNew})
				if err != nil {
					return nil, nil, nil, nil, false
				}
				held = o.Attributes
			case "output:ConditionalCheckFailed.Item":
				_, err := c.UpdateItem(ctx, &ddb2.UpdateItemInput{TableName: aws2.String("tab"), Key: key(), UpdateExpression: aws2.String("SET w = :w"), ConditionExpression: aws2.String("attribute_not_exists(h)"),
					ExpressionAttributeValues: map[string]types2.AttributeValue{":w": &types2.AttributeValueMemberS{Value: "w"}}, ReturnValuesOnConditionCheckFailure: types2.ReturnValuesOnConditionCheckFailureAllOld})
				var ccf *types2.ConditionalCheckFailedException
				if !errors.As(err, &ccf) || ccf.Item == nil {
					return nil, nil, nil, nil, false
				}
				held = ccf.Item
				// whatever else the returned error gives access to: every error of its chain that carries
				// an item in the library's own representation is caller-reachable memory too
				var muts []mutation
				mutsV2Item(held, &muts)
				for _, li := range libItemsInChain(err) {
					mutsLibItem(li, &muts)
				}
				return muts, readBack, func() val.Item { return drv.ItemFromV2(held) }, laterWrite, true
			}
		}
		var muts []mutation
		mutsV2Item(held, &muts)
		return muts, readBack, func() val.Item { return drv.ItemFromV2(held) }, laterWrite, true
	}}
}

// c14KeyOps are the calls whose Key structure stays in the caller's hands: the key of an item that
// UpdateItem creates is the one place where a request's key becomes stored data.
var c14KeyOps = []string{"UpdateItem(creates the item)", "UpdateItem(existing item)", "DeleteItem(condition false)", "GetItem", "Scan(Limit 1).LastEvaluatedKey", "Query(Limit 1).LastEvaluatedKey"}

var c14KeyTypes = []struct {
	t    string
	v, w val.V
}{{"S", val.S("k"), val.S("k2")}, {"N", val.N("7"), val.N("8")}, {"B", val.B(1, 2), val.B(3)}}

// c14KeyRun performs one key scenario on a fresh client: hash key h and range key r of the given
// type; it returns the mutable locations of the Key map the call received and a read of the
// whole table (GetItem by a fresh copy of the key, then Scan).
func c14KeyRun(sdk, op string, kt int) ([]mutation, func() string, bool) {
	k := c14KeyTypes[kt]
	keyItem := func() val.Item { return val.Item{"h": k.v.Clone(), "r": k.w.Clone()} }
	var muts []mutation
	if sdk == "v1" {
		c := v1c.NewClient()
		_, err := c.CreateTable(&ddb1.CreateTableInput{TableName: aws1.String("tab"), BillingMode: aws1.String("PAY_PER_REQUEST"),
			AttributeDefinitions: []*ddb1.AttributeDefinition{{AttributeName: aws1.String("h"), AttributeType: aws1.String(k.t)}, {AttributeName: aws1.String("r"), AttributeType: aws1.String(k.t)}},
			KeySchema:            []*ddb1.KeySchemaElement{{AttributeName: aws1.String("h"), KeyType: aws1.String("HASH")}, {AttributeName: aws1.String("r"), KeyType: aws1.String("RANGE")}}})
		if err != nil {
			return nil, nil, false
		}
		read := func() string {
			o, err := c.GetItem(&ddb1.GetItemInput{TableName: aws1.String("tab"), Key: drv.ItemToV1(keyItem())})
			sc, err2 := c.Scan(&ddb1.ScanInput{TableName: aws1.String("tab")})
			if err != nil || err2 != nil {
				return fmt.Sprintf("error %v %v", err, err2)
			}
			out := "get " + drv.ItemFromV1(o.Item).CanonText() + " scan"
			for _, it := range sc.Items {
				out += " " + drv.ItemFromV1(it).CanonText()
			}
			return out
		}
		if op != "UpdateItem(creates the item)" {
			if _, err := c.PutItem(&ddb1.PutItemInput{TableName: aws1.String("tab"), Item: drv.ItemToV1(val.Item{"h": k.v.Clone(), "r": k.w.Clone(), "v": val.S("stored")})}); err != nil {
				return nil, nil, false
			}
		}
		held := drv.ItemToV1(keyItem())
		vals := map[string]*ddb1.AttributeValue{":x": {S: aws1.String("x")}}
		switch op {
		case "UpdateItem(creates the item)", "UpdateItem(existing item)":
			_, err = c.UpdateItem(&ddb1.UpdateItemInput{TableName: aws1.String("tab"), Key: held, UpdateExpression: aws1.String("SET w = :x"), ExpressionAttributeValues: vals})
		case "DeleteItem(condition false)":
			_, err = c.DeleteItem(&ddb1.DeleteItemInput{TableName: aws1.String("tab"), Key: held, ConditionExpression: aws1.String("v = :x"), ExpressionAttributeValues: vals})
			if err != nil {
				err = nil
			} else {
				return nil, nil, false
			}
		case "GetItem":
			_, err = c.GetItem(&ddb1.GetItemInput{TableName: aws1.String("tab"), Key: held})
		case "Scan(Limit 1).LastEvaluatedKey":
			// the key structure a read hands out: LastEvaluatedKey of a page that filled
			var o *ddb1.ScanOutput
			o, err = c.Scan(&ddb1.ScanInput{TableName: aws1.String("tab"), Limit: aws1.Int64(1)})
			if err == nil {
				held = o.LastEvaluatedKey
			}
		case "Query(Limit 1).LastEvaluatedKey":
			var o *ddb1.QueryOutput
			o, err = c.Query(&ddb1.QueryInput{TableName: aws1.String("tab"), Limit: aws1.Int64(1), KeyConditionExpression: aws1.String("h = :h"), ExpressionAttributeValues: map[string]*ddb1.AttributeValue{":h": drv.ToV1(k.v)}})
			if err == nil {
				held = o.LastEvaluatedKey
			}
		}
		if err != nil || len(held) == 0 {
			return nil, nil, false
		}
		mutsV1Item(held, &muts)
		return muts, read, true
	}
	ctx := context.Background()
	c := v2c.NewClient()
	_, err := c.CreateTable(ctx, &ddb2.CreateTableInput{TableName: aws2.String("tab"), BillingMode: types2.BillingModePayPerRequest,
		AttributeDefinitions: []types2.AttributeDefinition{{AttributeName: aws2.String("h"), AttributeType: types2.ScalarAttributeType(k.t)}, {AttributeName: aws2.String("r"), AttributeType: types2.ScalarAttributeType(k.t)}},
		KeySchema:            []types2.KeySchemaElement{{AttributeName: aws2.String("h"), KeyType: types2.KeyTypeHash}, {AttributeName: aws2.String("r"), KeyType: types2.KeyTypeRange}}})
	if err != nil {
		return nil, nil, false
	}
	read := func() string {
		o, err := c.GetItem(ctx, &ddb2.GetItemInput{TableName: aws2.String("tab"), Key: drv.ItemToV2(keyItem())})
		sc, err2 := c.Scan(ctx, &ddb2.ScanInput{TableName: aws2.String("tab")})
		if err != nil || err2 != nil {
			return fmt.Sprintf("error %v %v", err, err2)
		}
		out := "get " + drv.ItemFromV2(o.Item).CanonText() + " scan"
		for _, it := range sc.Items {
			out += " " + drv.ItemFromV2(it).CanonText()
		}
		return out
	}
	if op != "UpdateItem(creates the item)" {
		if _, err := c.PutItem(ctx, &ddb2.PutItemInput{TableName: aws2.String("tab"), Item: drv.ItemToV2(val.Item{"h": k.v.Clone(), "r": k.w.Clone(), "v": val.S("stored")})}); err != nil {
			return nil, nil, false
		}
	}
	held := drv.ItemToV2(keyItem())
	vals := map[string]types2.AttributeValue{":x": &types2.AttributeValueMemberS{Value: "x"}}
	switch op {
	case "UpdateItem(creates the item)", "UpdateItem(existing item)":
		_, err = c.UpdateItem(ctx, &ddb2.UpdateItemInput{TableName: aws2.String("tab"), Key: held, UpdateExpression: aws2.String("SET w = :x"), ExpressionAttributeValues: vals})
	case "DeleteItem(condition false)":
		_, err = c.DeleteItem(ctx, &ddb2.DeleteItemInput{TableName: aws2.String("tab"), Key: held, ConditionExpression: aws2.String("v = :x"), ExpressionAttributeValues: vals})
		if err != nil {
			err = nil
		} else {
			return nil, nil, false
		}
	case "GetItem":
		_, err = c.GetItem(ctx, &ddb2.GetItemInput{TableName: aws2.String("tab"), Key: held})
	case "Scan(Limit 1).LastEvaluatedKey":
		var o *ddb2.ScanOutput
		o, err = c.Scan(ctx, &ddb2.ScanInput{TableName: aws2.String("tab"), Limit: aws2.Int32(1)})
		if err == nil {
			held = o.LastEvaluatedKey
		}
	case "Query(Limit 1).LastEvaluatedKey":
		var o *ddb2.QueryOutput
		o, err = c.Query(ctx, &ddb2.QueryInput{TableName: aws2.String("tab"), Limit: aws2.Int32(1), KeyConditionExpression: aws2.String("h = :h"), ExpressionAttributeValues: map[string]types2.AttributeValue{":h": drv.ToV2(k.v)}})
		if err == nil {
			held = o.LastEvaluatedKey
		}
	}
	if err != nil || len(held) == 0 {
		return nil, nil, false
	}
	mutsV2Item(held, &muts)
	return muts, read, true
}

// c14Keys runs every key scenario: for each mutable location of the Key map, a fresh client, the
// call, that one mutation, and a read of the table compared with the read of an unmutated run.
func c14Keys(run *ev.Run, evals, locations *int64, skipped *int64) {
	for _, sdk := range []string{"v2", "v1"} {
		for _, op := range c14KeyOps {
			for kt := range c14KeyTypes {
				muts, read, ok := c14KeyRun(sdk, op, kt)
				if !ok {
					atomic.AddInt64(skipped, 1)
					continue
				}
				want := read()
				atomic.AddInt64(locations, int64(len(muts)))
				for i := range muts {
					ms, rd, ok := c14KeyRun(sdk, op, kt)
					if !ok || i >= len(ms) {
						continue
					}
					ms[i].apply()
					got := rd()
					atomic.AddInt64(evals, 1)
					if got != want {
						run.Report(fmt.Sprintf("C14|%s|input:Key of %s|%s|stored-item-changed", sdk, op, ms[i].kind), fmt.Sprintf("key type %s: after mutating %s of the Key the caller passed to %s, the table reads %s instead of %s", c14KeyTypes[kt].t, ms[i].kind, op, got, want),
							map[string]interface{}{"sdk": sdk, "scenario": "input:Key of " + op, "key_type": c14KeyTypes[kt].t, "location": ms[i].kind, "location_index": i})
					}
				}
			}
		}
	}
}

func c14Trees(thorough bool) []val.V {
	leaves := c10Leaves()
	trees := append([]val.V{}, leaves...)
	kids := []val.V{val.S("a"), val.N("1.50"), val.B(1, 2), val.Bool(true), val.Null(), val.SS("x", "y"), val.NS("1", "2"), val.BS([]byte{1}, []byte{2, 3}), val.L(val.S("in"), val.B(9)), val.M("k", val.B(7), "j", val.NS("1"))}
	if thorough {
		kids = append(kids, leaves...)
	}
	trees = append(trees, containersOver(kids)...)
	return trees
}

// C14: stored data is isolated from caller-owned memory.
func C14(run *ev.Run, tier string) map[string]interface{} {
	thorough := tier == "thorough"
	trees := c14Trees(thorough)
	var evals, locations int64
	hist := map[string]int{}
	var mu sync.Mutex
	type job struct {
		sdk  c14sdk
		sc   string
		tree val.V
	}
	ch := make(chan job, 256)
	var wg sync.WaitGroup
	for w := 0; w < 16; w++ {
		wg.Add(1)
		go func() {
			defer wg.Done()
			for j := range ch {
				it := val.Item{"h": val.S("k"), "v": j.tree}
				want := it.Clone()
				ev.Breadcrumb(fmt.Sprintf("C14 %s %s %s", j.sdk.name, j.sc, j.tree.CanonText()))
				muts, readBase, _, _, ok := j.sdk.run(j.sc, it)
				if !ok {
					continue
				}
				if j.sc == "output:UpdateItem" || j.sc == "output:ConditionalCheckFailed.Item" {
					// the stored item after the scenario's own update
					if j.sc == "output:UpdateItem" {
						want["w"] = val.S("w")
					}
				}
				if j.sc == "input:UpdateItem-values" {
					// the value went through the expression interpreter (whose numbers are doubles: C12's
					// finding): the reference is what the same call stores when nothing is mutated
					want = readBase()
					if _, failed := want["error"]; failed {
						continue
					}
				}
				atomic.AddInt64(&locations, int64(len(muts)))
				for i := range muts {
					// fresh client and fresh structures for every single mutation
					ms, readBack, _, _, ok := j.sdk.run(j.sc, it)
					if !ok || i >= len(ms) {
						continue
					}
					ms[i].apply()
					got := readBack()
					atomic.AddInt64(&evals, 1)
					mu.Lock()
					hist[j.sc]++
					mu.Unlock()
					if !val.ItemEqual(got, want) && !(j.sdk.name == "v2" && val.ItemEqual(got, NullifyEmpty(want))) {
						run.Report(fmt.Sprintf("C14|%s|%s|%s|stored-item-changed", j.sdk.name, j.sc, ms[i].kind), fmt.Sprintf("%s: after mutating %s of the caller's structure, GetItem returns %s instead of %s", j.sc, ms[i].kind, got.CanonText(), want.CanonText()),
							map[string]interface{}{"sdk": j.sdk.name, "scenario": j.sc, "value": j.tree, "location": ms[i].kind, "location_index": i})
					}
				}
				// results already returned are not changed by later writes
				if len(j.sc) > 7 && j.sc[:7] == "output:" {
					_, _, structNow, laterWrite, ok := j.sdk.run(j.sc, it)
					if ok {
						before := structNow()
						laterWrite()
						after := structNow()
						atomic.AddInt64(&evals, 1)
						if !val.ItemEqual(before, after) {
							run.Report(fmt.Sprintf("C14|%s|%s|returned-structure-changed-by-later-write", j.sdk.name, j.sc), fmt.Sprintf("%s: the returned structure was %s and became %s after later writes", j.sc, before.CanonText(), after.CanonText()),
								map[string]interface{}{"sdk": j.sdk.name, "scenario": j.sc, "value": j.tree})
						}
					}
				}
			}
		}()
	}
	for _, sdk := range []c14sdk{c14V2(), c14V1()} {
		for _, sc := range c14Scenarios {
			for _, t := range trees {
				ch <- job{sdk, sc, t.Clone()}
			}
		}
	}
	close(ch)
	wg.Wait()
	var keySkipped int64
	c14Keys(run, &evals, &locations, &keySkipped)
	return map[string]interface{}{
		"key_scenarios":           fmt.Sprintf("%d calls x %d key types x 2 clients, %d not applicable", len(c14KeyOps), len(c14KeyTypes), keySkipped),
		"evaluations":             evals,
		"distinct_nontrivial":     locations,
		"value_trees":             len(trees),
		"rule":                    "for every value tree (boundary leaves and lists/maps with 0-2 children over a representative set) and every mutable location of its SDK representation (string/bool pointers incl. the NULL flag, every byte of binaries, set members, list elements, map entries; member structs of SDK v2), in every scenario (inputs of PutItem, UpdateItem values, BatchWriteItem; outputs of GetItem, Query, Scan, UpdateItem and the ConditionalCheckFailed item): perform the call on a fresh client, mutate that one location, read the item again; plus output-then-later-write for every output scenario; plus the Key map passed to UpdateItem (creating the item / on an existing item), DeleteItem (rejected) and GetItem, and the LastEvaluatedKey returned by Scan and Query with Limit 1, for S, N and B hash+range keys, every location mutated after the call; a case is distinct by (sdk, scenario, tree, location)",
		"oracle":                  "every later GetItem returns the item as written (for UpdateItem values: as the same call stores it on a client whose caller mutates nothing), since the mutation was never passed through the API; a returned structure converts to the same value before and after later writes",
		"samples":                 []interface{}{"v1 input:PutItem {v: L[S in, B 09]} mutate byte of B", "v2 output:Scan {v: BS[01,0203]} mutate member of BS replaced"},
		"exhaustive":              true,
		"evaluations_by_scenario": hist,
	}
}
