#!/bin/bash
# usage: seedbatch.sh <prefix> <id...>   validates /tmp/<prefix>-<id> as seeded/<prefix>-<id>
prefix=$1; shift
for id in "$@"; do
  wt=/tmp/$prefix-$id
  if [ ! -f $wt/SEED_NOTES.md ]; then echo "$id: not ready"; continue; fi
  python3 /verif/scripts/seedcheck.py $prefix-$id $id $wt 2>&1 | tail -1 | cut -c1-300 | sed "s/^/$id: /"
done
