#!/bin/bash
# Runs the repository's own test suite (no build tag) and checks that every test of the pinned
# baseline (/root/.vp/BASELINE.json stable_pass) passes. Exit 0 iff all of them pass.
export GOFLAGS=-mod=mod GOPROXY=off GOSUMDB=off GOTOOLCHAIN=local
cd /repo || exit 2
out=$(mktemp)
go test -json -vet=off -count=1 ./... > "$out" 2>/dev/null
python3 - "$out" <<'PY'
import json,sys
passed=set(); failed=set()
for l in open(sys.argv[1]):
    try: e=json.loads(l)
    except Exception: continue
    if e.get('Test') and e.get('Action') in('pass','fail'):
        (passed if e['Action']=='pass' else failed).add(e['Package']+'::'+e['Test'])
try:
    base=json.load(open('/root/.vp/BASELINE.json'))['stable_pass']
except Exception:
    base=[]
missing=[t for t in base if t not in passed]
print(f"baseline: {len(base)} expected, {len(passed)} passed, {len(failed)} failed; missing from pass set: {len(missing)}")
for t in missing: print("  NOT PASSING:",t)
for t in sorted(failed): print("  failed:",t)
sys.exit(1 if missing else 0)
PY
rc=$?
rm -f "$out"
exit $rc
