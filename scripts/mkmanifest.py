#!/usr/bin/env python3
"""Generates /verif/MANIFEST.json from the table below (kept in one place so that the claimed
checks, their techniques and the not_applicable list never drift apart)."""
import json

E1 = "explicit-state model checking of the real client (BFS to closure over a finite operation alphabet; reference-model conformance checked on every transition)"
E1M = "explicit-state model checking: every reachable table content of a finite item universe (closure) x an exhaustive request menu, each executed on the real client against the reference model"
E2 = "bounded-exhaustive enumeration (small-scope model checking) of inputs/programs on the real lexer/parser/evaluator/mappers against a reference semantics"
E3 = "stateless model checking of thread interleavings of the real client under a controlled scheduler (iterative preemption bounding); per execution: lockset and happens-before race checks, brute-force linearizability"

CHECKS = {
    "C01": dict(engine="E1", technique=E1,
                text="every history over the alphabet, of any length, conforms to the key->item map (closure of the reachable state space), on both SDK adapters",
                note="bounded alphabet (2-3 keys per schema, string keys, number sort keys that are neighbours beyond float64 precision and composite keys that an incomplete escaping of the separator would merge, fixed payloads incl. a nested document, a type-changing update and rejected writes on stored and absent keys); trusted: reference model; reflective state hash used only for de-duplication",
                ref="DESIGN.md 3/C01"),
    "C03": dict(engine="E1", technique=E1,
                text="every history of index-affecting writes over the alphabet (closure) keeps every secondary index equal to the sparse view of the base table, on both SDK adapters and five index configurations",
                note="bounded alphabet (2-3 keys, two index key values; GSI hash / GSI hash+range / GSI inverted (range key, hash key) / GSI on the table range key next to a GSI on g / two LSIs; items carry a nested document; an item ill-typed for a GSI that is created later; UpdateTable create-delete of a second GSI); trusted: reference model",
                ref="DESIGN.md 3/C03"),
    "C05": dict(engine="E1", technique=E1,
                text="in every reachable combination of target and bystander items, every conditional Put/Update/Delete of the menu succeeds iff the reference evaluation of the condition on the target item is true, and a refused write changes nothing observable",
                note="bounded alphabet (2-3 keys, 7-9 conditions incl. one with two name placeholders; DeleteItem with either return option alone; key schemas H(S), HR(S,N) with 19-digit neighbour sort keys, HR(S,S) with a hash key ending in a backslash next to keys containing dots); ReturnValuesOnConditionCheckFailure only exercised through SDK v2 (the v1 request type has no such field)",
                ref="DESIGN.md 3/C05"),
    "C08": dict(engine="E1", technique=E1,
                text="in every reachable state, every request of the failing-request menu that the implementation rejects leaves the complete observation equal to the unchanged model, and the successor state keeps conforming in all further histories",
                note="three systems: one GSI, two GSIs (a write ill-typed for either), a GSI created and deleted around items that are ill-typed for it; the fault space is the menu of ~80 failing request kinds incl. batches of two and three, multi-change UpdateTable and PutItem/DeleteItem with a ReturnValues setting they do not accept (the library has no other failure source); requests the implementation accepts are outside this property",
                ref="DESIGN.md 3/C08"),
    "C13": dict(engine="E1", technique="bounded-exhaustive enumeration of all ordered pairs of distinct keys over separator-carrying component alphabets (each pair a fixed history on the real client against the reference model), a bulk pass over every key of a generated component alphabet in one table, plus explicit-state BFS over key-changing updates and malformed-key requests (single and batch)",
                text="no two distinct keys of the alphabets collide, every malformed key is rejected with a validation error and no change, and no update leaves an item whose key attributes differ from its addressing key - on everything enumerated, with the three recorded findings",
                note="bulk pass: all strings of length 1..2 (hash-only 1..3; thorough 1..4) over the characters a . \\ % | / : # as key components, 5 184 composite keys in one table; component alphabets of the pair histories: 16 (34) strings with '.', '%' directives, blanks, case; 9 numbers, 9 binaries incl. bytes below 0x10; 5 schemas incl. HR(B,B) with the bytes of the separator, a blank and brackets; identity of numeric keys by value is C12's",
                ref="DESIGN.md 3/C13"),
    "C15": dict(engine="E1", technique=E1,
                text="every history of failure toggles and data operations over the alphabet (closure): configured error class while active, no read-visible change, lock-step with the model after deactivation, batch writes under internal-server failure fully reported as unprocessed, on both SDK adapters",
                note="two keys, two tables, three batch compositions (four in thorough) two batches that repeat a key and one whose item holds empty containers while a failure is active; BatchGetItem only through SDK v2",
                ref="DESIGN.md 3/C15"),
    "C18": dict(engine="E1", technique=E1,
                text="every lifecycle history over the alphabet (closure) on table slots of one and two clients conforms to the catalogue model; isolation between tables and between clients is checked by observing every slot after every transition",
                note="3 (quick) / 7 (thorough) valid and 3 invalid configurations, 1-2 keys per table (one item also written without the index attributes), 2-4 slots; single and batch operations on absent tables; an update rejected for an ill-typed index key on every table with an index; UpdateTable with one and with two index changes (all-or-nothing)",
                ref="DESIGN.md 3/C18"),
    "C19": dict(engine="E1", technique=E1M,
                text="in every reachable content of two tables, every batch write of 1..3 (4) requests over the slots and every batch get over every subset of slots equals the item-by-item decomposition computed by the reference model; batches of 13-25 requests that write one key several times end as list order says or are refused as a whole",
                note="3-4 (table,key) slots, 3 actions per slot (one put variant leaves the sparse GSI both tables carry), sizes 25/26 for the service limit, 96 repeated-key runs; v1 has no BatchGetItem (finding)",
                ref="DESIGN.md 3/C19"),
    "C02": dict(engine="E1", technique=E1M,
                text="in every table content over the item universe (all subsets, reached by closure) every Query and Scan of the exhaustive menu returns exactly the reference selection in sort-key order (ties free), on base table, GSI and LSI, both directions, both SDK adapters",
                note="item universes of 5-6 (quick) / 7-8 (thorough) items per configuration incl. a key-only item and a sort key starting beyond U+FFFF, each item also written by UpdateItem, rejected index-key writes in the alphabet, an index on the table's own key attributes; value alphabets drawn from the universe plus absent values; number sort keys are ordered as text (recorded finding)",
                ref="DESIGN.md 3/C02"),
    "C04": dict(engine="E1", technique=E1M,
                text="in every state of the C02 space, for every query of the menu and every Limit from 1 to |result|+1 the concatenated pages equal the unpaginated result of the same client, within the page budget; and for every page boundary of every walk of the reduced menu, deleting the boundary item does not lose any remaining item",
                note="same universes as C02; the boundary-deletion pass rebuilds a fresh client per boundary (replay of the history)",
                ref="DESIGN.md 3/C04"),
    "C17": dict(engine="E1", technique="explicit-state model checking of the product of the two real clients (BFS to closure; oracle = agreement of the normalised responses of v1 and v2 on every transition and every observation read)",
                text="every history over the union of the C01/C03/C05/C08/C15/C18/C19 alphabets, invalid requests under failure toggles, every C10 value tree and the query/pagination menu produces identical normalised responses through the v1 and the v2 client at every step; a stored value tree is also read by a filtered Scan/Query, two updates and a conditional delete",
                note="InvalidParameter (SDK v1 client-side validation) and ValidationException are one class; ProjectionType and other fields outside the normalised response are not compared; ReturnValuesOnConditionCheckFailure is not expressible in the v1 request types",
                ref="DESIGN.md 3/C17"),
    "C06": dict(engine="E2", technique=E2,
                text="every atomic condition form x every path spelling x every typing of its operands (ten types and absence) and every boolean tree up to 3 (4) leaves, also with tab / newline / CR LF / double blank as white space, evaluates on the real interpreter to an outcome the reference three-valued evaluator accepts, without panic and without modifying the item",
                note="two or three values per type (numbers less than one apart, strings and binaries in prefix relation, a byte above 127; operands of 130 / 258 / 1026 bytes agreeing on a long prefix), sets in subset/overlap/permutation relation also nested in documents, names with boundary characters and dotted names behind placeholders; acceptance sets where the property is silent (DESIGN.md Appendix A); direct interpreter.Language.Match calls, each repeated on a long-lived interpreter that must agree with the fresh one (client-level wiring of conditions, filters and key conditions is exercised by C02/C05)",
                ref="DESIGN.md 3/C06"),
    "C07": dict(engine="E2", technique=E2,
                text="every update program of one or two (thorough: three) actions over the action alphabet, on a typed item and on a key-only item, through interpreter.Language.Update and through UpdateItem of both SDK clients (existing and absent key), yields exactly the reference result (targets set, removed attributes gone, every untargeted attribute identical) or is rejected without change; never a panic",
                note="paths of up to four segments; name placeholders in root and non-root segments under two bindings of the names; every evaluation repeated on a long-lived interpreter / client that must agree with the fresh one; values that print like the stored value of another type; overlapping target paths are outside the alphabet; numbers up to 15 digits here (exactness is C12's); three recorded findings pinned by repository tests are attributed by defect models",
                ref="DESIGN.md 3/C07"),
    "C09": dict(engine="E2", technique=E2 + "; plus a reference recogniser for strictness",
                text="every token string up to length 4 (5; 5 (6) over the core alphabet), every byte string of length <= 2 and every byte embedded at every position of three valid sentences, every operand position of 24 sentence forms filled with 27 non-operands, 20 spellings of a list position in 9 forms, under six bindings of :v, in both grammars: no panic, termination, and every string the generous reference recogniser rejects is rejected; at the client API never a silently successful call",
                note="strings longer than the token bound are only covered by directed pumped sentences up to 4 KB; the recogniser is deliberately generous (it only rejects unknown characters, incomplete or unbalanced sentences, trailing/juxtaposed tokens)",
                ref="DESIGN.md 3/C09"),
    "C10": dict(engine="E2", technique=E2,
                text="every attribute-value tree over the boundary leaves up to depth 2 (3) written with PutItem comes back structurally equal through GetItem, Query, Scan (also with Limit 1 and through a GSI), BatchGetItem and after an unrelated UpdateItem, in both SDK clients",
                note="the item is rewritten under the same primary and index key and read through the index again; boundary leaves of every type; 140 numerals sign x mantissa x exponent part (e/E, signed, 1-3 digits) as N, in a list and in a number set; lists and maps with 0-2 children; BatchGetItem only exists in the v2 client; the v2 empty-container finding is attributed by its defect model",
                ref="DESIGN.md 3/C10"),
    "C12": dict(engine="E2", technique=E2,
                text="every ordered pair of numerals of the alphabet under comparison, membership, arithmetic, set operations and as hash/range key, every 3-subset of number sort keys and pair of binary sort keys for ordering, and an untouched 38-digit attribute across every arithmetic update, judged by exact decimal arithmetic",
                note="29 (44) numerals chosen; a copy of the number in the same expression (SET b = a ADD a :n) must be the pre-update value; to separate text, double and decimal semantics; the float64 and key-text findings are attributed only when the answer equals that defect model's prediction",
                ref="DESIGN.md 3/C12"),
    "C14": dict(engine="E2", technique=E2 + " (every mutable location of every SDK value tree, one mutation per fresh client)",
                text="for every value tree and every mutable location of its SDK v1 / v2 representation, in every input and output scenario (items, update values, batch requests, request keys, returned items, LastEvaluatedKey, the ConditionalCheckFailed item), mutating that location after the call returns leaves every later read unchanged, and returned structures are not changed by later writes",
                note="locations are enumerated structurally (pointers, bytes, set members, list elements, map entries, v2 member structs; items in the library's own representation reachable through the chain of a returned error); one fresh client per (scenario, tree, location)",
                ref="DESIGN.md 3/C14"),
    "C16": dict(engine="E2", technique=E2 + " against the rule table of the statement",
                text="every reserved word x letter case x bare-name position (39, incl. positions behind a decided outcome) is rejected and benign/aliased names are not; every supplied-vs-used placeholder subset relation, every key-condition shape, every batch size 1..27 and malformed write request is judged by the rule table, in both SDK clients",
                note="573 words pinned from the pinned commit, five spellings each (UPPER, lower, Capitalised, last letter capital, every second letter capital); malformed placeholder keys (non-ASCII letters and digits, bare and doubled prefix) next to used ones and in a projection expression; placeholder universe {#a,#ab,#b} x {:a,:ab,:b}, with and without any expression; two recorded findings (placeholder validation by substring, key-condition shape not validated)",
                ref="DESIGN.md 3/C16"),
    "C20": dict(engine="E2", technique=E2 + " over registration sets x requests x activation configurations",
                text="for every set of up to two registrations, every request and every activation configuration, exactly the expected callback fires and its verdict/mutation is used; unregistered conditions fall back to the built-in result, unregistered updates fail with the unsupported-feature error and leave the item unchanged; nothing fires when the native interpreter is not active",
                note="2 tables (one name a prefix of the other; the other table deleted and re-created before the request) x 4 kinds x 5 texts (whitespace variants, a character permutation, different texts); for every single registration every ordered pair of requests on ONE client (a dispatch that remembers earlier resolutions must stay exact); write conditions through PutItem and DeleteItem on stored and absent keys; quick: pairs of the same kind, thorough: all ordered pairs; 6 configurations; both SDK clients",
                ref="DESIGN.md 3/C20"),
    "C11": dict(engine="E3", technique=E3 + "; supplemented by a free-running race-detector pass over the same scenario bodies",
                text="every schedule with at most 1 (thorough: 2) preemptions of every pair of calls of the 20/23-call menu (data, batch, table management, every test helper) from three initial states, of Query/Scan through a secondary index against every call from an indexed state, of the named N-thread scenarios and of two-call threads (at most 2 preemptions), on both SDK clients: no deadlock, no panic, lockset race freedom, and an outcome equal to that of some sequential order",
                note="scheduling points: Lock/Unlock, every access to a Client field or core.Table/index object in the client packages, every statement of core/table.go and core/index.go (inserted at build time through go build -overlay); sequentially consistent interleavings only; the lockset rule distinguishes shared (RLock) from exclusive holds; 2-3 threads; batch calls are decomposed into their requests for the sequential reference; a vector-clock happens-before check over all recorded accesses incl. silent Touch events on maps and slices in every library package; the race-detector pass (uninstrumented -race build, 40/400 repetitions per scenario) is sampling and only guards the completeness of the marked accesses",
                ref="DESIGN.md 1.7, 3/C11"),
}

PENDING = {}

ALL = ["C%02d" % i for i in range(1, 21)]

def main():
    checks = []
    served = {}
    for pid in ALL:
        if pid not in CHECKS:
            continue
        c = CHECKS[pid]
        served.setdefault(c["engine"], []).append(pid)
        checks.append({
            "property_id": pid,
            "quick_cmd": "./run.sh %s quick" % pid,
            "thorough_cmd": "./run.sh %s thorough" % pid,
            "evidence_file": "/verif/evidence/%s.json" % pid,
            "replay_cmd_template": "./run.sh replay {path}",
            "engine": c["engine"],
            "technique": c["technique"],
            "level_claimed": {"category": "model_checking", "text": c["text"], "design_ref": c["ref"]},
            "level_note": c["note"],
        })
    na = []
    for pid in ALL:
        if pid not in CHECKS:
            na.append({"property_id": pid, "reason": PENDING.get(pid, "check not built yet (work in progress; see DESIGN.md section 3 for the planned model-checking approach)")})
    engines = [
        {"name": "E1", "path": "/verif/mc", "serves_properties": served.get("E1", []), "kind_free_text": "explicit-state BFS over operation histories on the real client, lock-step Go reference model, reflective canonical state hash"},
        {"name": "E2", "path": "/verif/checks", "serves_properties": served.get("E2", []), "kind_free_text": "bounded-exhaustive enumerators (ASTs, typings, value trees, token strings, numerals) against reference evaluators"},
        {"name": "E3", "path": "/verif/sched", "serves_properties": served.get("E3", []), "kind_free_text": "controlled scheduler + DFS with preemption bounding over build-time instrumented client code"},
    ]
    m = {
        "version": 1,
        "setup_cmd": "/verif/scripts/setup.sh",
        "hooks": {
            "guard": "verif",
            "enable": "no in-tree hooks: the harness reads implementation state by reflection and instruments sources at build time through go build -overlay (nothing under /repo is tagged)",
            "baseline_off_cmd": "/verif/scripts/baseline.sh",
            "source_commits": [],
            "add_only": True,
        },
        "engines": engines,
        "checks": checks,
        "not_applicable": na,
        "notes": "All checks: ./run.sh <id> <tier> rebuilds the harness against /repo's working tree. Known genuine defects are listed in /verif/known_findings.json (status known|fixed).",
    }
    json.dump(m, open("/verif/MANIFEST.json", "w"), indent=1)
    print("claimed:", [c["property_id"] for c in checks])

if __name__ == "__main__":
    main()
