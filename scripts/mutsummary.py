#!/usr/bin/env python3
"""Writes mutation/SUMMARY.md from mutation/results.jsonl, retest-results.jsonl and triage.json."""
import json, collections
rows = [json.loads(l) for l in open('/verif/mutation/results.jsonl')]
ms = {json.loads(l)['id']: json.loads(l) for l in open('/verif/mutation/mutants.jsonl')}
tri = {int(k): v for k, v in json.load(open('/verif/mutation/triage.json')).items()}
done = {r['id'] for r in rows}
notrun = [m for i, m in ms.items() if i not in done]
c = collections.Counter(r['status'] for r in rows)
kc = collections.Counter(r['check'] for r in rows if r['status'] == 'killed-by-check')
out = ["# Mutation campaign\n",
       "Generator `cmd/mutate` (first-order mutants: operator swaps, negated if/for conditions, deleted call/assignment/defer/continue/break statements, flipped booleans and 0/1 literals) over core, interpreter, interpreter/language, aws-v1/client, aws-v2/client, types at /repo commit 8d7464f; runner `scripts/mutcampaign.py` (scratch copies of the committed tree and of /verif; repository suite first, then the quick tier of the checks that can observe the package, closest first, stopping at the first violation; every worker first required all 20 checks to be quiet on its unmutated copy).\n",
       f"| mutants generated | {len(ms)} |", "|---|---|"]
for k, v in c.most_common():
    out.append(f"| {k} | {v} |")
out.append(f"| not run: `true->false` in the reserved-word table after the first 36 of them survived for the reason below | {len(notrun)} |")
out.append("\nOf the mutants the repository's own suite lets through (%d), the checks report %d; by check: %s.\n" % (c['SURVIVED'] + c['killed-by-check'], c['killed-by-check'], ", ".join(f"{k} {v}" for k, v in kc.most_common())))
cl = collections.Counter(tri[r['id']][0] for r in rows if r['status'] == 'SURVIVED')
out.append("## Survivors of the first pass (%d), read one by one\n" % c['SURVIVED'])
for k, v in cl.most_common():
    out.append(f"- {k}: {v}")
out.append("\nThe gaps were closed (alphabets and oracles, see DESIGN.md section 5) and the mutants re-run against the strengthened checks on the current tree (`retest-results.jsonl`): all killed.\n")
out.append("| id | site | mutation | class | why |")
out.append("|---|---|---|---|---|")
groups = collections.OrderedDict()
for r in rows:
    if r['status'] != 'SURVIVED':
        continue
    cls, why = tri[r['id']]
    groups.setdefault((cls, why), []).append(r)
for (cls, why), rs in sorted(groups.items(), key=lambda kv: (not kv[0][0].startswith('gap'), kv[0][0], kv[1][0]['id'])):
    ids = ", ".join(str(r['id']) for r in rs[:8]) + (" …(%d)" % len(rs) if len(rs) > 8 else "")
    sites = sorted({f"{r['file']}:{r['func'] or r['line']}" for r in rs})
    kinds = sorted({r['kind'] for r in rs})
    out.append("| %s | %s | %s | %s | %s |" % (ids, "; ".join(sites[:4]) + (" …" if len(sites) > 4 else ""), "; ".join(kinds[:4]) + (" …" if len(kinds) > 4 else ""), cls, why.replace("|", "\\|")))
out.append("\n## Retest on the current tree\n")
try:
    rt = {json.loads(l)['id']: json.loads(l) for l in open('/verif/mutation/retest.jsonl')}
    out.append("| old id | site | mutation | result |")
    out.append("|---|---|---|---|")
    for l in open('/verif/mutation/retest-results.jsonl'):
        r = json.loads(l)
        if r['id'] < 0:
            continue
        out.append("| %s | %s:%s | %s | %s %s `%s` |" % (rt[r['id']]['old_id'], r['file'], r['line'], r['kind'], r['status'], r.get('check', ''), r.get('signature', '')[:80].replace("|", "\\|")))
except FileNotFoundError:
    pass
# second generation
try:
    rows2 = [json.loads(l) for l in open('/verif/mutation/results-gen2.jsonl')]
    tri2 = {int(k): v for k, v in json.load(open('/verif/mutation/triage-gen2.json')).items()}
    c2 = collections.Counter(r['status'] for r in rows2)
    k2 = collections.Counter(r['check'] for r in rows2 if r['status'] == 'killed-by-check')
    out.append("\n## Second generation of operators (at /repo commit bf45592)\n")
    out.append("Whole `if` statements without else deleted (a guard or a validation removed), `else` branches deleted, calls of `copy*` helpers replaced by their argument (aliasing), slice lower bound 1 -> 0: %d mutants (`mutants-gen2.jsonl`, `results-gen2.jsonl`).\n" % len(rows2))
    out.append("| outcome | count |\n|---|---|")
    for k, v in c2.most_common():
        out.append(f"| {k} | {v} |")
    out.append("\nOf the %d the suite lets through the checks report %d; by check: %s.\n" % (c2['SURVIVED'] + c2['killed-by-check'], c2['killed-by-check'], ", ".join(f"{k} {v}" for k, v in k2.most_common())))
    cl2 = collections.Counter(tri2[r['id']][0] for r in rows2 if r['status'] == 'SURVIVED')
    out.append("Survivors (%d): %s.\n" % (c2['SURVIVED'], ", ".join(f"{k} {v}" for k, v in cl2.most_common())))
    out.append("| id | site | mutation | class | why |\n|---|---|---|---|---|")
    g2 = collections.OrderedDict()
    for r in rows2:
        if r['status'] == 'SURVIVED':
            g2.setdefault(tuple(tri2[r['id']]), []).append(r)
    for (cls, why), rs in sorted(g2.items(), key=lambda kv: (not kv[0][0].startswith('gap'), kv[0][0])):
        ids = ", ".join(str(r['id']) for r in rs[:6]) + (" …(%d)" % len(rs) if len(rs) > 6 else "")
        sites = sorted({f"{r['file']}:{r['func'] or r['line']}" for r in rs})
        out.append("| %s | %s | %s | %s | %s |" % (ids, "; ".join(sites[:3]) + (" …" if len(sites) > 3 else ""), "; ".join(sorted({r['kind'] for r in rs})), cls, why.replace("|", "\\|")))
    out.append("\nRetest of the gaps (`retest-gen2-results.jsonl`, `retest-gen2b-results.jsonl`): all killed (C06, C14).")
except FileNotFoundError:
    pass
open('/verif/mutation/SUMMARY.md', 'w').write("\n".join(out) + "\n")
print("\n".join(out[:14]))
