#!/usr/bin/env python3
"""Rewrites the last column ("quick numbers") of the table in DESIGN.md section 2 from the
evidence files of the latest quick run (so that the document quotes measured numbers only)."""
import json, re
p = '/verif/DESIGN.md'
s = open(p).read()
def fmt(n): return f"{n:,}".replace(",", " ")
out = []
for line in s.split('\n'):
    m = re.match(r'^\| (C\d\d) \|', line)
    if m and line.count('|') >= 5 and '| E' in line:
        pid = m.group(1)
        try:
            d = json.load(open(f'/verif/evidence/{pid}.json'))
        except Exception:
            out.append(line); continue
        if d.get('tier') != 'quick':
            out.append(line); continue
        c = d['coverage']
        if pid == 'C11':
            num = f"{fmt(c['schedules'])} schedules, {fmt(c['transitions'])} steps, {fmt(c.get('map_and_slice_accesses_recorded',0))} silent accesses; race pass {fmt(c['race_detector_pass']['executions'])} executions"
        elif 'states' in c and 'evaluations' not in c:
            num = f"{fmt(c['states'])} states, {fmt(c['transitions'])} transitions" + (", closure" if c.get('exhaustive') else ", capped")
        elif 'states' in c:
            num = f"{fmt(c['evaluations'])} evaluations incl. {fmt(c['states'])} states / {fmt(c['transitions'])} transitions"
        else:
            num = f"{fmt(c.get('distinct_nontrivial',0))} distinct cases, {fmt(c.get('evaluations',0))} evaluations"
        cols = line.split('|')
        cols[-2] = ' ' + num + f" ({round(d['wall_s'])} s) "
        line = '|'.join(cols)
    out.append(line)
open(p, 'w').write('\n'.join(out))
