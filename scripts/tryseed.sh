#!/bin/bash
# usage: tryseed.sh <seed-dir-name> <check> [tier]  — applies seeded/<name>/patch.diff to /repo, runs the check, reverts
cd /verif
[ -z "$(git -C /repo status --porcelain)" ] || { echo "/repo not clean"; exit 3; }
git -C /repo apply /verif/seeded/$1/patch.diff || exit 3
./run.sh $2 ${3:-quick} 2>&1 | grep "VIOLATION\|signature\|$2 ${3:-quick}:" | cut -c1-300 | head -${4:-12}
git -C /repo checkout -- .
git -C /repo status --porcelain
