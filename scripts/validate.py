#!/usr/bin/env python3-vt
import json,sys,glob,jsonschema
jsonschema.validate(json.load(open('/verif/MANIFEST.json')), json.load(open('/root/.vp/MANIFEST.schema.json')))
es=json.load(open('/root/.vp/EVIDENCE.schema.json'))
for f in sorted(glob.glob('/verif/evidence/*.json')):
    jsonschema.validate(json.load(open(f)), es)
    print('ok',f)
m=json.load(open('/verif/MANIFEST.json'))
claimed={c['property_id'] for c in m['checks']}
na={c['property_id'] for c in m.get('not_applicable',[])}
allp=[json.loads(l)['id'] for l in open('/verif/properties.jsonl')]
print('claimed',sorted(claimed)); print('n/a',sorted(na)); print('unaccounted',[p for p in allp if p not in claimed and p not in na])
