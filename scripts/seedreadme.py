#!/usr/bin/env python3
import json, glob, os
rows = []
for f in sorted(glob.glob('/verif/seeded/*/meta.json')):
    m = json.load(open(f))
    notes = os.path.join(os.path.dirname(f), 'SEED_NOTES.md')
    first = ''
    ok = m['existing_suite_passes_with_patch'] and m['demo_fails_with_patch'] and m['demo_passes_without_patch']
    det = ', '.join(m['detected_by']) or '**missed**'
    sigs = []
    for c, r in m['checks_on_patched_repo'].items():
        if r['exit'] == 1:
            sigs += r['signatures'][:2]
    rows.append((m['name'], m['property'], 'yes' if ok else 'NO', det, m.get('needs', '') + (' — FIRST RUN MISSED by ' + m['first_run_missed_by'] if m.get('first_run_missed_by') else ''), '; '.join(s[:90] for s in sigs[:2])))
out = ["# Seeded property-breaking changes\n",
       "Each directory holds `patch.diff` (a change to truora/minidyn written by a sub-agent that saw only the property text and a scratch worktree), the demonstration test, the agent's `SEED_NOTES.md` and `meta.json` (what was run: the repository's suite with the patch, the demonstration with and without it, and the quick tier of the checks against /repo with the patch applied and removed again). None of these changes is committed to /repo.\n",
       "| seed | property | confirmed (suite passes, demo fails/passes) | reported by | what it needs to manifest | first signatures |",
       "|---|---|---|---|---|---|"]
for r in rows:
    out.append('| ' + ' | '.join(x.replace('|', '\\|') for x in r) + ' |')
open('/verif/seeded/README.md', 'w').write('\n'.join(out) + '\n')
print('\n'.join(out[-len(rows):]))
