#!/usr/bin/env python3
"""Validates a seeded change written by a sub-agent in a scratch worktree and records it under
/verif/seeded/<name>/ (patch.diff, the demonstration, meta.json).

usage: seedcheck.py <name> <property> <worktree> [check ids to run ...]

Steps: (1) the patch is the worktree's uncommitted diff of tracked files; the demonstration is
its untracked *_test.go file(s); (2) in the worktree: the existing suite passes with the patch
(TestSeedDemo excluded), TestSeedDemo fails with the patch and passes without it; (3) the patch
is applied to /repo, the given checks (default: the property's own) run in quick tier, and the
patch is removed again (git checkout -- .). The checks must pass on the unchanged tree first."""
import json, os, subprocess, sys, shutil, time

ENV = dict(os.environ, GOFLAGS="-mod=mod", GOPROXY="off", GOSUMDB="off", GOTOOLCHAIN="local")

def sh(cmd, cwd=None, timeout=3600):
    p = subprocess.run(cmd, shell=True, cwd=cwd, env=ENV, stdout=subprocess.PIPE, stderr=subprocess.STDOUT, timeout=timeout)
    return p.returncode, p.stdout.decode(errors="replace")

def main():
    name, prop, wt = sys.argv[1], sys.argv[2], sys.argv[3]
    checks = sys.argv[4:] or [prop]
    out = f"/verif/seeded/{name}"
    os.makedirs(out, exist_ok=True)
    rc, patch = sh("git diff", cwd=wt)
    if not patch.strip():
        sys.exit("no uncommitted change in " + wt)
    open(f"{out}/patch.diff", "w").write(patch)
    rc, untracked = sh("git ls-files --others --exclude-standard", cwd=wt)
    demos = [f for f in untracked.split() if f.endswith("_test.go")]
    for d in demos:
        shutil.copy(os.path.join(wt, d), f"{out}/{os.path.basename(d)}")
    if os.path.exists(os.path.join(wt, "SEED_NOTES.md")):
        shutil.copy(os.path.join(wt, "SEED_NOTES.md"), f"{out}/SEED_NOTES.md")
    meta = {"name": name, "property": prop, "worktree": wt, "demo_files": demos, "ran": []}
    demo_pkgs = sorted({"./" + os.path.dirname(d) for d in demos})
    # (2) in the worktree
    rc, o = sh("go build ./... && go test -count=1 -skip 'TestSeedDemo' ./...", cwd=wt)
    meta["existing_suite_passes_with_patch"] = rc == 0
    meta["ran"].append({"cmd": "go test -count=1 -skip TestSeedDemo ./... (patched)", "rc": rc, "tail": o[-600:]})
    race = "-race " if prop == "C11" else ""
    count = "-count=5" if prop == "C11" else "-count=1"
    rc1, o1 = sh(f"go test {race}{count} -run 'TestSeedDemo' " + " ".join(demo_pkgs), cwd=wt, timeout=900)
    meta["demo_fails_with_patch"] = rc1 != 0
    meta["ran"].append({"cmd": f"go test {race}{count} -run TestSeedDemo (patched)", "rc": rc1, "tail": o1[-800:]})
    # (the worktrees of one repository share refs/stash: reverse-apply the patch instead of stashing)
    sh(f"git apply -R {out}/patch.diff", cwd=wt)
    rc2, o2 = sh(f"go test {race}{count} -run 'TestSeedDemo' " + " ".join(demo_pkgs), cwd=wt, timeout=900)
    sh(f"git apply {out}/patch.diff", cwd=wt)
    meta["demo_passes_without_patch"] = rc2 == 0
    meta["ran"].append({"cmd": f"go test {race}{count} -run TestSeedDemo (unpatched)", "rc": rc2, "tail": o2[-400:]})
    # (3) my checks against the patched /repo
    rc, o = sh("git status --porcelain", cwd="/repo")
    if o.strip():
        sys.exit("/repo is not clean: " + o)
    # a detection only counts if the same check is quiet on the unchanged tree
    for c in checks:
        rc, o = sh(f"./run.sh {c} quick", cwd="/verif", timeout=3000)
        if rc != 0:
            sys.exit(f"check {c} does not pass on the unchanged tree (exit {rc}): fix that first")
    rc, o = sh(f"git apply {out}/patch.diff", cwd="/repo")
    if rc != 0:
        sys.exit("patch does not apply to /repo: " + o)
    results = {}
    try:
        for c in checks:
            t0 = time.time()
            rc, o = sh(f"./run.sh {c} quick", cwd="/verif", timeout=3000)
            sigs = [l.strip()[len("signature: "):] for l in o.splitlines() if l.strip().startswith("signature: ")]
            results[c] = {"exit": rc, "violation_lines": o.count("VIOLATION property="), "signatures": sigs[:12], "wall_s": round(time.time() - t0, 1), "summary": o.strip().splitlines()[-1][:300] if o.strip() else ""}
            print(c, "exit", rc, "violations", o.count("VIOLATION property="), sigs[:3])
    finally:
        sh("git checkout -- .", cwd="/repo")
        sh("git clean -fdq -- zzverif", cwd="/repo")
    meta["checks_on_patched_repo"] = results
    meta["detected_by"] = sorted(c for c, r in results.items() if r["exit"] == 1)
    json.dump(meta, open(f"{out}/meta.json", "w"), indent=1)
    print(json.dumps({k: meta[k] for k in ("existing_suite_passes_with_patch", "demo_fails_with_patch", "demo_passes_without_patch", "detected_by")}))

if __name__ == "__main__":
    main()
