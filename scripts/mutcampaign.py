#!/usr/bin/env python3
"""Mutation campaign (DESIGN.md section 5): every first-order mutant produced by cmd/mutate is
applied to a scratch copy of the repository; mutants that still compile and pass the
repository's own test suite are then run against the quick tier of the 20 checks (cheapest
first, stopping at the first check that reports a violation). Nothing under /repo is touched:
each worker owns a copy of /repo and a copy of /verif whose go.mod points at that copy.

usage: mutcampaign.py <mutants.jsonl> <results.jsonl> [workers] [first] [last]
"""
import json, os, signal, subprocess, sys, threading, queue, shutil, time

CHEAP = ["C10", "C12", "C16", "C14", "C06", "C05", "C15", "C19", "C13", "C20", "C07", "C03", "C02", "C04", "C08", "C01", "C11", "C18", "C09", "C17"]
FIRST = {  # the checks most likely to notice a change in a package run first
    "core/": ["C05", "C03", "C13", "C19", "C02", "C04", "C08", "C01", "C18", "C15"],
    "interpreter/language/": ["C06", "C16", "C12", "C07", "C05", "C10", "C09"],
    "interpreter/": ["C20", "C06", "C07"],
    "aws-v": ["C10", "C14", "C15", "C19", "C05", "C20", "C18", "C16", "C17", "C11"],
    "types/": ["C05", "C08", "C15"],
}

# checks that cannot observe a change in a package are not run for its mutants: C06/C09/C16 drive
# the interpreter or the client-side placeholder rules (core is not involved); C17 compares the
# two clients, which share core and the interpreter; C11's oracle is relative to the same code run
# sequentially, C15/C18/C19 evaluate no expression
IRRELEVANT = {
    "core/": {"C06", "C09", "C16", "C17"},
    "types/": {"C06", "C09", "C16", "C17"},
    "interpreter/": {"C11", "C15", "C17", "C18", "C19"},
    "aws-v": {"C06"},
}

def order_for(path):
    for pre in sorted(FIRST, key=len, reverse=True):
        if path.startswith(pre):
            skip = set()
            for p2, cs in IRRELEVANT.items():
                if path.startswith(p2):
                    skip = cs
            return [c for c in FIRST[pre] + [c for c in CHEAP if c not in FIRST[pre]] if c not in skip]
    return CHEAP
ENV = dict(os.environ, GOFLAGS="-mod=mod", GOPROXY="off", GOSUMDB="off", GOTOOLCHAIN="local")
BASE = "/tmp/mut"

def sh(cmd, cwd, timeout, env=None):
    p = subprocess.Popen(cmd, shell=True, cwd=cwd, env=env or ENV, stdout=subprocess.PIPE, stderr=subprocess.STDOUT, start_new_session=True)
    try:
        o, _ = p.communicate(timeout=timeout)
        return p.returncode, o.decode(errors="replace")
    except subprocess.TimeoutExpired:
        try:
            os.killpg(p.pid, signal.SIGKILL)
        except ProcessLookupError:
            pass
        o, _ = p.communicate()
        return 124, o.decode(errors="replace")

def setup(w):
    d = f"{BASE}/w{w}"
    shutil.rmtree(d, ignore_errors=True)
    os.makedirs(d)
    # the committed tree, not the working tree (which another experiment may be patching right now)
    os.makedirs(f"{d}/repo")
    subprocess.run(f"git -C /repo archive HEAD | tar -x -C {d}/repo", shell=True, check=True)
    subprocess.run(f"rsync -a --exclude .git --exclude replays --exclude evidence --exclude seeded --exclude bin --exclude mutation /verif/ {d}/verif/", shell=True, check=True)
    os.makedirs(f"{d}/verif/evidence", exist_ok=True)
    gm = open(f"{d}/verif/go.mod").read().replace("=> /repo", f"=> {d}/repo")
    open(f"{d}/verif/go.mod", "w").write(gm)
    return d

def worker(w, q, out, lock):
    d = setup(w)
    env = dict(ENV, VERIF_REPO=f"{d}/repo", VERIF_ROOT=f"{d}/verif", GOMAXPROCS="6")
    # every check must be quiet on the unmutated copy, or nothing this worker reports means anything
    for c in CHEAP:
        rc, o = sh(f"./run.sh {c} quick", f"{d}/verif", 1500, env)
        if rc != 0:
            with lock:
                out.write(json.dumps({"id": -1, "worker": w, "status": "BASELINE-NOT-QUIET", "check": c, "rc": rc, "tail": o[-300:]}) + "\n")
                out.flush()
            return
    while True:
        try:
            m = q.get_nowait()
        except queue.Empty:
            return
        path = f"{d}/repo/{m['file']}"
        src = open(path, "rb").read()
        res = {"id": m["id"], "file": m["file"], "line": m["line"], "kind": m["kind"], "func": m["func"], "orig": m["orig"][:80]}
        t0 = time.time()
        line = src.split(b"\n")[m["line"] - 1].decode(errors="replace")
        if "HACK for passing coverage" in line or ".Debug" in line or m["func"].endswith(".String") or m["func"].endswith(".TokenLiteral"):
            # statements that exist for test coverage, debug printing and the String() renderers of the
            # AST (used by debug output and by the interpreter's own tests only)
            res["status"] = "not-run(non-semantic site)"
            with lock:
                out.write(json.dumps(res) + "\n")
                out.flush()
            continue
        try:
            open(path, "wb").write(src[:m["start"]] + m["repl"].encode() + src[m["end"]:])
            rc, o = sh("go build ./...", f"{d}/repo", 300)
            if rc != 0:
                res["status"] = "does-not-compile"
            else:
                rc, o = sh("go test -count=1 -vet=off ./...", f"{d}/repo", 240)
                if rc != 0:
                    res["status"] = "killed-by-repo-suite" if rc != 124 else "killed-by-repo-suite(timeout)"
                else:
                    res["status"] = "SURVIVED"
                    res["checks_run"] = []
                    for c in order_for(m['file']):
                        rc, o = sh(f"./run.sh {c} quick", f"{d}/verif", 1500, env)
                        res["checks_run"].append(c)
                        if rc == 1:
                            sig = [l.strip() for l in o.splitlines() if l.strip().startswith("signature:")]
                            res["status"] = "killed-by-check"
                            res["check"] = c
                            res["signature"] = sig[0][len("signature: "):] if sig else o.strip().splitlines()[-1][:200]
                            break
                        if rc != 0:
                            res["status"] = "check-abnormal"
                            res["check"] = c
                            res["rc"] = rc
                            res["tail"] = o[-300:]
                            break
        finally:
            open(path, "wb").write(src)
        res["wall_s"] = round(time.time() - t0, 1)
        with lock:
            out.write(json.dumps(res) + "\n")
            out.flush()

def main():
    muts = [json.loads(l) for l in open(sys.argv[1])]
    results = sys.argv[2]
    workers = int(sys.argv[3]) if len(sys.argv) > 3 else 4
    first = int(sys.argv[4]) if len(sys.argv) > 4 else 0
    last = int(sys.argv[5]) if len(sys.argv) > 5 else len(muts)
    done = set()
    if os.path.exists(results):
        done = {json.loads(l)["id"] for l in open(results)}
    q = queue.Queue()
    for m in muts[first:last]:
        if m["id"] not in done:
            q.put(m)
    print("to do:", q.qsize())
    out = open(results, "a")
    lock = threading.Lock()
    ts = [threading.Thread(target=worker, args=(w, q, out, lock)) for w in range(workers)]
    for t in ts:
        t.start()
    for t in ts:
        t.join()
    shutil.rmtree(BASE, ignore_errors=True)

if __name__ == "__main__":
    main()
