#!/usr/bin/env python3
"""Regenerates /verif/known_findings.json. Entries: fixed(...) documents a repaired defect (it
suppresses nothing); known(...) lists a genuine defect that is recorded instead of repaired,
identified by exact violation signatures. Run by hand when a finding is added; never at check time."""
import json, os, subprocess

ROOT = os.path.dirname(os.path.dirname(os.path.abspath(__file__)))

LOG = subprocess.check_output(['git', '-C', '/repo', 'log', '--format=%h %s']).decode().splitlines()
F = []

def commit(part):
    for l in LOG:
        if part in l:
            return l.split()[0]
    raise SystemExit('no commit matching ' + part)

def fixed(prop, id, part, what, sigs=()):
    c = commit(part)
    F.append({"property": prop, "id": id, "status": "fixed", "commit": c, "signatures": list(sigs),
              "what": f"fixed: property={prop} {c} {what}"})

def known(prop, id, what, sigs, witness=None):
    e = {"property": prop, "id": id, "status": "known", "signatures": list(sigs), "what": what}
    if witness:
        e["witness"] = witness
    F.append(e)

exec(open(ROOT + '/scripts/findings_table.py').read())
json.dump(F, open(ROOT + '/known_findings.json', 'w'), indent=1)
print(len(F), "entries")
