#!/bin/bash
# Builds the harness from files on disk only (offline) and warms the Go build cache, including
# the instrumented build of the concurrency check.
cd "$(dirname "$(readlink -f "$0")")/.." || exit 2
export GOFLAGS=-mod=mod GOPROXY=off GOSUMDB=off GOTOOLCHAIN=local
mkdir -p bin evidence replays
go build -o bin/check ./cmd/check || exit 2
go build -o bin/instr ./cmd/instr || exit 2
rm -rf bin/c11-overlay && mkdir -p bin/c11-overlay
./bin/instr /repo "$PWD/bin/c11-overlay" "$PWD/sched/verifsync/verifsync.go" > bin/instr.log || exit 2
go build -overlay bin/c11-overlay/overlay.json -o bin/c11 ./cmd/c11 || exit 2
go build -race -overlay bin/c11-overlay/overlay-min.json -o bin/c11race ./cmd/c11 || exit 2
echo "setup ok"
