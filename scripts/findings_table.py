# Table of findings (executed by mkfindings.py).
fixed("C01","C01-remove-toplevel-noop","REMOVE of a top-level","UpdateItem with REMOVE of a top-level attribute left the attribute in the stored item",["C01|Upd(REMOVE a)|UpdateItem|item"])
fixed("C03","C03-index-maintenance","keep secondary index entries","an item entering an index through UpdateItem overwrote another entry; overwrites changing or dropping the index key left stale entries",["C03|after Put(g=x)|observe Scan|index|items|missing"])
fixed("C03","C03-index-backfill","backfill a global secondary","an index created on a populated table stayed empty")
fixed("C03","C03-v1-index-itemcount","SDK v1 DescribeTable reports","SDK v1 DescribeTable carried no per-index ItemCount")
fixed("C03","C03-v2-lsi-itemcount","SDK v2 DescribeTable reports ItemCount","SDK v2 DescribeTable carried no ItemCount for local secondary indexes")
fixed("C18","C18-index-name-alias","DescribeTable names every","with two or more indexes DescribeTable gave every index the name of the last one visited")
fixed("C05","C05-delete-cond-whole-table","DeleteItem evaluates its condition","DeleteItem evaluated its condition over the whole table instead of the target item")
fixed("C05","C05-rvoccf-put-delete","honour ReturnValuesOnConditionCheckFailure","PutItem/DeleteItem (SDK v2) ignored ReturnValuesOnConditionCheckFailure=ALL_OLD")
fixed("C08","C08-index-key-validate-after-write","validate index key types before writing","PutItem/UpdateItem with a wrong-typed index key returned ValidationException but stored the item")
fixed("C08","C08-updatetable-attrdefs","failing UpdateTable restores","a rejected UpdateTable still changed the attribute definitions")
known("C08","C08-batch-partial-application","BatchWriteItem containing an invalid request (missing/ill-typed key or index key) applies the valid requests that precede it and then returns the error: the failing call leaves a trace",
 ["C08|after FAIL:BatchWrite(valid delete, then delete with wrong-typed key)|observe DescribeTable|desc-itemcount",
  "C08|after FAIL:BatchWrite(valid put, then put with wrong-typed index key)|observe DescribeTable|desc-index-count",
  "C08|after FAIL:BatchWrite(valid put, then put with wrong-typed index key)|observe DescribeTable|desc-itemcount",
  "C08|after FAIL:BatchWrite(valid put, then put with wrong-typed index key)|observe GetItem|item",
  "C08|after FAIL:BatchWrite(valid put, then put without key)|observe DescribeTable|desc-index-count",
  "C08|after FAIL:BatchWrite(valid put, then put without key)|observe DescribeTable|desc-itemcount",
  "C08|after FAIL:BatchWrite(valid put, then put without key)|observe GetItem|item"],
 {"history":["CreateTable tab (h:S, GSI g:S)"],"op":"BatchWriteItem [put {h:k1,a:batch}] [put {a:nokey}] -> ValidationException, yet GetItem(k1) now returns the item"})
