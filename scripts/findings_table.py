# Table of findings (executed by mkfindings.py).
fixed("C01","C01-remove-toplevel-noop","REMOVE of a top-level","UpdateItem with REMOVE of a top-level attribute left the attribute in the stored item",["C01|Upd(REMOVE a)|UpdateItem|item"])
fixed("C03","C03-index-maintenance","keep secondary index entries","an item entering an index through UpdateItem overwrote another entry; overwrites changing or dropping the index key left stale entries",["C03|after Put(g=x)|observe Scan|index|items|missing"])
fixed("C03","C03-index-backfill","backfill a global secondary","an index created on a populated table stayed empty")
fixed("C03","C03-v1-index-itemcount","SDK v1 DescribeTable reports","SDK v1 DescribeTable carried no per-index ItemCount")
fixed("C03","C03-v2-lsi-itemcount","SDK v2 DescribeTable reports ItemCount","SDK v2 DescribeTable carried no ItemCount for local secondary indexes")
fixed("C18","C18-index-name-alias","DescribeTable names every","with two or more indexes DescribeTable gave every index the name of the last one visited")
fixed("C05","C05-delete-cond-whole-table","DeleteItem evaluates its condition","DeleteItem evaluated its condition over the whole table instead of the target item")
fixed("C05","C05-rvoccf-put-delete","honour ReturnValuesOnConditionCheckFailure","PutItem/DeleteItem (SDK v2) ignored ReturnValuesOnConditionCheckFailure=ALL_OLD")
fixed("C08","C08-index-key-validate-after-write","validate index key types before writing","PutItem/UpdateItem with a wrong-typed index key returned ValidationException but stored the item")
fixed("C08","C08-updatetable-attrdefs","failing UpdateTable restores","a rejected UpdateTable still changed the attribute definitions")
fixed("C08","C08-batch-partial-application","BatchWriteItem validates every request before applying any","a BatchWriteItem containing an invalid request applied the requests preceding it and then returned the error")

known("C19","C19-v2-batchget-absent-unprocessed","SDK v2 BatchGetItem reports keys that have no stored item as UnprocessedKeys instead of leaving them out (pinned by the repository's own TestPutAndGetBatchItem, so it cannot be repaired without editing that test)",
 ["C19|BatchGet(1)|BatchGetItem|unprocessed-keys@v2","C19|BatchGet(2)|BatchGetItem|unprocessed-keys@v2","C19|BatchGet(3)|BatchGetItem|unprocessed-keys@v2","C19|BatchGet(4)|BatchGetItem|unprocessed-keys@v2"],
 {"history":["CreateTable tba (h:S)"],"op":"BatchGetItem {tba:[{h:k1}]} on the empty table -> UnprocessedKeys={tba:[{h:k1}]}"})
known("C19","C19-v1-batchget-missing","the SDK v1 client does not implement BatchGetItem: the call dereferences the nil embedded DynamoDBAPI and panics",
 ["C19|BatchGet(1)|BatchGetItem|class|want=success|got=PANIC(runtime)@v1","C19|BatchGet(2)|BatchGetItem|class|want=success|got=PANIC(runtime)@v1","C19|BatchGet(3)|BatchGetItem|class|want=success|got=PANIC(runtime)@v1","C19|BatchGet(4)|BatchGetItem|class|want=success|got=PANIC(runtime)@v1"],
 {"op":"v1 client.BatchGetItem(any input) -> nil pointer dereference"})
known("C13","C13-update-changes-key","UpdateItem may overwrite or remove the key attributes of the stored item (SET h = :z, REMOVE h, SET r, REMOVE r succeed): the item then shows key attributes different from the key under which it is retrievable. Accepting `SET id = :id` is pinned by the repository's own core TestUpdate, so it cannot be repaired without editing that test",
 ["C13|Upd(SET h)|UpdateItem|class|want=*reject*|got=success@v1","C13|Upd(SET h)|UpdateItem|class|want=*reject*|got=success@v2",
  "C13|Upd(REMOVE h)|UpdateItem|class|want=*reject*|got=success@v1","C13|Upd(REMOVE h)|UpdateItem|class|want=*reject*|got=success@v2",
  "C13|Upd(SET r)|UpdateItem|class|want=*reject*|got=success@v1","C13|Upd(SET r)|UpdateItem|class|want=*reject*|got=success@v2",
  "C13|Upd(REMOVE r)|UpdateItem|class|want=*reject*|got=success@v1","C13|Upd(REMOVE r)|UpdateItem|class|want=*reject*|got=success@v2"],
 {"history":["CreateTable tab (h:S)","PutItem {h:k1,a:v}"],"op":"UpdateItem key {h:k1} SET h = :z -> success; GetItem {h:k1} returns an item whose h is z"})
known("C13","C13-dot-join-collision","two distinct composite keys whose '%v' renderings joined by '.' coincide are one item: (\"a.b\",\"c\") and (\"a\",\"b.c\"), or (\"a.1\",2) and (\"a\",1.2) overwrite each other. The key string format hash+'.'+range is pinned by the repository's own core TestGetKey (\"range.HASH\"), so the encoding cannot be changed without editing that test. Only collisions explained by this encoding are attributed to the finding",
 ["C13|keypair HR(S,S)|step3 GetItem|GetItem|item|explained-by-dot-join=true@v1","C13|keypair HR(S,S)|step3 GetItem|GetItem|item|explained-by-dot-join=true@v2",
  "C13|keypair HR(S,N)|step3 GetItem|GetItem|item|explained-by-dot-join=true@v1","C13|keypair HR(S,N)|step3 GetItem|GetItem|item|explained-by-dot-join=true@v2"],
 {"history":["CreateTable tab (h:S, r:S)","PutItem {h:'a.b', r:'c', v:1}","PutItem {h:'a', r:'b.c', v:2}"],"op":"GetItem {h:'a.b', r:'c'} returns v=2"})
fixed("C15","C15-v2-batchwrite-failure-early-return","BatchWriteItem reports requests as unprocessed","SDK v2 BatchWriteItem under emulated internal-server failure returned the error instead of UnprocessedItems (the repository's always-failing TestBatchWriteItemWithFailingDatabase)")
fixed("C15","C15-transact-deprecated-sentinel","TransactWriteItems returns the configured","TransactWriteItems returned the deprecated sentinel whatever failure condition was configured")
fixed("C04","C04-boundary-item-deleted","pagination resumes correctly","after deletion of the item named by LastEvaluatedKey the next page was empty with no LastEvaluatedKey",["C04|Query|base|after-boundary-deletion|lost@v2"])
known("C02","C02-number-sort-key-text-order","Query returns items with number-typed sort keys in the order of the numerals' text (1, 10, 2, 9) instead of numeric order, on the base table and on indexes: keys are strings ordered by sort.Strings, a design decision pinned by the key format test (same root cause as C12's key findings). Only sequences that are exactly text-ordered are attributed to this finding",
 ["C02|HR(S,N)+GSI(g,n)|Query|base|order|N|explained-by-text-order=true@v1","C02|HR(S,N)+GSI(g,n)|Query|base|order|N|explained-by-text-order=true@v2",
  "C02|HR(S,N)+GSI(g,n)|Query|index|order|N|explained-by-text-order=true@v1","C02|HR(S,N)+GSI(g,n)|Query|index|order|N|explained-by-text-order=true@v2"],
 {"history":["CreateTable tab (h:S, r:N)","PutItem {h:p,r:2}","PutItem {h:p,r:10}"],"op":"Query h = :p -> [10, 2]"})
fixed("C17","C17-nil-deref-optional-fields","no nil dereference on a Query without key condition","v1 Query without KeyConditionExpression and v2 UpdateItem without UpdateExpression crashed with a nil dereference while the other adapter answered")
known("C17","C17-v1-batchget-missing","the SDK v1 client does not implement BatchGetItem (nil embedded interface: runtime panic) while the v2 client does",
 ["C17|BatchGet(1)|BatchGetItem|class|v1=PANIC(runtime)|v2=success@v1","C17|BatchGet(2)|BatchGetItem|class|v1=PANIC(runtime)|v2=success@v1","C17|BatchGet(3)|BatchGetItem|class|v1=PANIC(runtime)|v2=success@v1","C17|BatchGet(4)|BatchGetItem|class|v1=PANIC(runtime)|v2=success@v1",
  "C17|BatchGet|BatchGetItem|class|v1=PANIC(runtime)|v2=ForcedFailure@v1","C17|BatchGet|BatchGetItem|class|v1=PANIC(runtime)|v2=InternalServerError@v1"],
 {"op":"BatchGetItem(any input): v1 panics, v2 answers"})
known("C17","C17-v1-sdk-input-validation","the v1 client runs the SDK's input.Validate() (table names shorter than 3 characters are rejected with InvalidParameter) while the v2 client accepts the same request: CreateTable(\"ab\") succeeds in v2 only",
 ["C17|INVALID:CreateTable(2-character name)|CreateTable|class|v1=InvalidParameter|v2=success@v1","C17|INVALID:CreateTable(empty name)|CreateTable|class|v1=InvalidParameter|v2=success@v1","C17|INVALID:Put(empty table name)|PutItem|class|v1=InvalidParameter|v2=ResourceNotFoundException@v1"],
 {"op":"CreateTable name 'ab' (h:S, PAY_PER_REQUEST): v1 InvalidParameter, v2 success"})
known("C17","C17-v2-empty-container-as-null","the two clients disagree on empty binary values, lists, maps: the v2 client returns them as NULL (C10's finding C10-v2-empty-container-as-null, pinned by the v2 TestMapTypesToDynamo), the v1 client returns them unchanged. Attributed only when turning every empty container of the v1 answer into NULL yields exactly the v2 answer",
 ["C17|after Put(value tree)|observe %s|explained-by-empty-container-returned-as-NULL@v1" % o for o in ("GetItem|item","Scan|items","Query|items")],
 {"history":["CreateTable tab (h:S)","PutItem {h:k1, v:L[]}"],"op":"GetItem k1: v1 {v: L[]}, v2 {v: NULL}"})
fixed("C18","C18-updatetable-partial-index-changes","an UpdateTable whose later index change fails","UpdateTable [Create gsy, Delete nosuchindex] returned ResourceNotFoundException but kept gsy (and rolled back only the attribute definitions); [Delete gsx, Delete nosuchindex] failed but removed gsx; reported by C18 and C08 (commit 8d7464f)")
known("C06","C06-dotted-alias-read-as-path","a name placeholder whose name contains dots (#d -> \"d.e\") and names no attribute of the item is read as a document path: with a map d holding a member e, attribute_exists(#d) is true and comparisons see d.e's member. Environment.Get splits the dealiased name on '.' when the exact attribute is absent; the interpreter's own tests rely on aliases that stand for dotted paths (TestEvalSetUpdate 'SET :nestedMap.#pos = #pos + :one', TestEvalUpdateError): returning 'missing' there fails both. Attributed only when the answer is exactly what reading the alias as a path predicts",
 ["C06|placeholder-naming-a-dotted-attribute|explained-by-alias-read-as-document-path"],
 {"expression":"attribute_exists(#d)","names":{"#d":"d.e"},"item":"{d: M{e: S decoy}}","accepted":"F","observed":"T"})
fixed("C06","C06-cross-type-comparison-panic","comparing values of different types no longer panics","'n = :s', 'n < :s' and every other comparison between values of different scalar types crashed with an interface-conversion panic")
fixed("C06","C06-list-index-past-end-panic","a list position past the end","a condition on l[5] of a shorter list crashed with index out of range")
fixed("C06","C06-attribute-exists-null","attribute_exists is true for an attribute of type NULL","attribute_exists was false (attribute_not_exists true) for an attribute holding NULL")
fixed("C06","C06-functions-on-missing-attribute","condition functions on a missing attribute are false","attribute_type/begins_with/contains errored on a missing attribute; size() rejected lists, maps and sets")
fixed("C06","C06-in-between-path-operands","IN and BETWEEN accept document paths","'m.x IN (:v)' and 'l[0] BETWEEN :a AND :b' were rejected with 'identifier expected'")
fixed("C06","C06-binary-set-equality-order","binary sets compare as sets","two binary sets with the same members in a different order were unequal")
known("C06","C06-contains-set-operand-subset","contains(path, :v) with a set-typed attribute and an operand that is a set of the same type answers the subset test (true when every member of :v is in the attribute) where DynamoDB only accepts an element of the set as operand (false or a validation error); the subset behaviour of the set objects' Contains is pinned by the repository's own TestStringSetContains / TestNumberSetContains / TestBinarySetContains",
 ["C06|contains|path[%s]:%s|val:%s|accepted{F,E}|got=T" % (p,t,t) for p in ["a","#a","m.x","m.#x","#d(dotted name)","m.#k(dotted key)","l[0]","l[1]","m.l[0].x"] for t in ["SS","NS","BS"]],
 {"expression":"contains(a, :v)","item":"{a: SS[b,z]}","values":"{:v: SS[b,z]}","observed":"true"})
fixed("C07","C07-set-aliases-value","SET assigns a copy","'SET c = a' shared the object of a (a later action on a changed c; 'SET u.k[1].n = u' built a cyclic document and overflowed the stack)")
fixed("C07","C07-rhs-reads-updated-item","every SET right-hand side reads the pre-update item","right-hand sides read values already changed by earlier actions of the same expression (SET a = b, b = a; ADD a :n SET c = a; REMOVE a SET b = a)")
fixed("C07","C07-remove-nested-missing-parent","REMOVE of a nested path whose parent is missing","REMOVE m.x on an item without m failed instead of doing nothing")
fixed("C07","C07-delete-creates-attribute","DELETE on a missing attribute no longer creates it","DELETE on a missing attribute created it with the operand set")
known("C07","C07-set-from-missing-path-stores-null","SET with a right-hand side path that does not exist (SET a = nope) stores NULL instead of rejecting the update; pinned by the repository's own TestEvalSetUpdate (the second run of 'SET :x = :val REMOVE :val' must succeed). Attributed only when the result is exactly the item obtained by reading the missing path as NULL",
 ["C07|%s|invalid-update-accepted|explained-by-missing-path-stored-as-NULL" % v for v in ("Language.Update","client-v1","client-v2")],
 {"expression":"SET a = nope","item":"{h:k}","observed":"{h:k, a:NULL}"})
known("C07","C07-add-accepts-any-operand","ADD accepts operands DynamoDB rejects: a string (or any value) is stored under a missing attribute, and a scalar of the element type is added to a set; pinned by the repository's own TestEvalAddUpdate ('ADD newVal :val' with a string, 'ADD :numSet :one'). Attributed only when the result is exactly what this lenient ADD predicts",
 ["C07|%s|invalid-update-accepted|explained-by-lenient-ADD" % v for v in ("Language.Update","client-v1","client-v2")] +
 ["C07|%s|invalid-update-accepted|explained-by-missing-path-stored-as-NULL+lenient-ADD" % v for v in ("Language.Update","client-v1","client-v2")],
 {"expression":"ADD a :s","item":"{h:k}","values":"{:s: S 'str'}","observed":"{h:k, a:'str'}"})
known("C07","C07-v2-emptied-set-returned-as-null","through the SDK v2 client a set emptied by DELETE is returned as NULL (the v2 mapper turns every empty container into NULL: C10's finding, pinned by the v2 TestUpdateExpressions/remove)",
 ["C07|client-v2|wrong-result|explained-by-empty-container-returned-as-NULL"] +
 ["C07|client-v2|invalid-update-accepted|explained-by-%s+empty-container-returned-as-NULL" % m for m in ("missing-path-stored-as-NULL","lenient-ADD","missing-path-stored-as-NULL+lenient-ADD")],
 {"expression":"DELETE ss :ssall","item":"{ss: SS[x,y]}","observed":"GetItem returns ss: NULL"})
fixed("C09","C09-juxtaposed-conditions","a condition expression followed by further tokens","'a = :x b = :y' and 'a = :x and b = :y' evaluated only the last clause; an empty condition dereferenced nil")
fixed("C09","C09-update-parsed-loosely","update expressions and document paths are parsed strictly","garbage before the first clause keyword was skipped, a trailing clause keyword without actions was accepted, 'a = b.' took EOF for the member name")
fixed("C09","C09-nul-byte-truncates","a NUL byte in an expression is an illegal character","everything after an embedded NUL byte was silently ignored")
fixed("C09","C09-function-arity-panic","calling a function with the wrong number of operands","attribute_exists() / begins_with(a) crashed with index out of range")
fixed("C09","C09-between-missing-bound","BETWEEN requires both bounds","'a BETWEEN :lo AND' was evaluated with EOF as the upper bound")
fixed("C09","C09-chained-comparators","a comparator's operands cannot be conditions","'a = b = c' evaluated to false instead of being rejected")
fixed("C09","C09-in-without-parenthesis","IN requires a parenthesised operand list","'a IN b )' was accepted")
fixed("C09","C09-in-empty-list","IN with an empty operand list is rejected","'a IN ( )' evaluated to false")
fixed("C09","C09-add-delete-nontoplevel-silent","ADD and DELETE on anything but a top-level attribute","'ADD m.x :n' / 'ADD a + b :n' succeeded without doing anything")
fixed("C09","C09-condition-as-function-operand","a condition cannot be the operand of a function","'attribute_exists(a = b)' was evaluated")
fixed("C10","C10-empty-binary-unsupported","an item holding an empty binary value can be updated","any UpdateItem or condition on an item holding an empty binary value failed with 'value type is not supported yet'")
known("C10","C10-v2-empty-container-as-null","the SDK v2 client returns empty binary values, empty lists and empty maps as NULL, at the top level and nested, on every read path (the v2 mapper chooses the type by len() != 0 tests and falls through to NULL); pinned by the repository's own TestMapTypesToDynamo and TestUpdateExpressions/remove. Attributed only when the value read equals the value written with every empty container replaced by NULL",
 ["C10|%s|value-changed|explained-by-empty-container-returned-as-NULL=true|%s@v2" % (p,w) for p in ("GetItem","Query","Scan","Query(Limit 1)","Scan(Limit 1)","Query(index)","Scan(index, Limit 1)","BatchGetItem","GetItem-after-unrelated-UpdateItem") for w in ("top","nested")],
 {"op":"v2 PutItem {h:k, v: L[]} then GetItem -> v: NULL"})
fixed("C12","C12-untouched-number-reserialised","an update keeps the stored representation of attributes whose value did not change","any UpdateItem re-serialised every number of the item through float64: an untouched 38-digit attribute was rounded to 17 digits")
known("C12","C12-numbers-are-float64","numbers are IEEE doubles inside the expression interpreter: numerals that differ beyond 15-17 significant digits compare equal (9007199254740993 = 9007199254740992), 0.1 + 0.2 is 0.30000000000000004, set membership and BETWEEN/IN inherit it. Replacing float64 by a decimal type is a redesign of interpreter/language/object.go. Attributed only when the answer is exactly what double arithmetic predicts",
 ["C12|cmp|explained-by-float64=true","C12|between|explained-by-float64=true","C12|in|explained-by-float64=true","C12|contains|explained-by-float64=true","C12|arith|explained-by-float64=true","C12|ns-add|explained-by-float64=true","C12|ns-delete|explained-by-float64=true"],
 {"expression":"a = :n","a":"9007199254740993",":n":"9007199254740992","observed":"true"})
known("C12","C12-number-keys-are-text","number-typed key attributes are identified and ordered by the text of the numeral: an item put under h=1 is not found under h=1.0 (and both can be stored side by side); Query returns number sort keys in text order (1, 10, 2) and binary sort keys in the order of their '%v' rendering. Keys are strings ordered by sort.Strings and the key format is pinned by the repository's own core TestGetKey. Attributed only when the answer is exactly what the text model predicts",
 ["C12|key-identity|%s|%s|explained-by-key-text=true@%s" % (p,o,d) for p in ("hash","range") for o in ("get","overwrite") for d in ("v1","v2")] +
 ["C12|key-order|%s|explained-by-text-order=true@%s" % (t,d) for t in ("N","B") for d in ("v1","v2")],
 {"history":["CreateTable tab (h:N)","PutItem {h:1}"],"op":"GetItem {h:1.0} -> nothing"})
fixed("C14","C14-v1-shares-caller-memory","SDK v1 client no longer shares memory","v1: mutating a *string/*bool/byte/set member of a structure passed to PutItem/BatchWriteItem/UpdateItem, or returned by GetItem/Query/Scan/UpdateItem, changed the stored item")
fixed("C14","C14-v2-shares-binary-and-bool","SDK v2 client copies binary and boolean","v2: the byte slices of B/BS values and the BOOL member's field were shared between the caller's structures and the stored item")
import itertools as _it
_tags = ["undefined-name", "undefined-value", "unused-name-that-is-prefix-of-a-used-one", "unused-value-that-is-prefix-of-a-used-one"]
_combos = ["+".join(sorted(c)) for n in range(1, 5) for c in _it.combinations(_tags, n)]
known("C16","C16-placeholder-validation-by-substring","supplied-vs-used validation of expression attribute names/values is a substring test and only runs one way: a supplied placeholder that is a prefix of a used one (:a next to :ab) counts as used, and a placeholder used in an expression but never supplied is silently evaluated as an absent attribute. Both are relied upon by the repository's own TestUpdateItemWithConditionalExpression (it supplies :ntyp and uses :ntype), so they cannot be repaired without editing that test. Plain unused placeholders are rejected correctly",
 ["C16|placeholders|%s|accepted@%s" % (c, d) for c in _combos for d in ("v1", "v2")],
 {"op":"Scan FilterExpression 'z = :ab' with ExpressionAttributeValues {:a, :ab} -> accepted; Scan FilterExpression 'z = :a' with no values -> accepted"})
known("C16","C16-key-condition-shape-not-validated","Query executes any condition given as KeyConditionExpression: conditions without the partition key, inequalities or functions on the partition key, OR / NOT, non-key attributes, two sort-key conditions, <> / contains / attribute_exists on the sort key, and a missing key condition are all evaluated per item like a filter (Table.matchKey never compares the condition's shape with the key schema); adding a shape validator is a new component rather than a small repair",
 ["C16|key-condition|%s|invalid-shape-executed@%s" % (w, d) for w in ("base", "index") for d in ("v1", "v2")],
 {"op":"Query KeyConditionExpression 'h = :h OR r = :r' -> executed and returns items"})
fixed("C20","C20-native-key-sorted-characters","native matchers and updaters are looked up by the expression text","a native matcher/updater registered for 'a = :v' also fired for ':v = a' (lookup key = sorted characters) and did not fire for the same text with repeated blanks")
fixed("C11","C11-unlocked-management-methods","table management methods and test helpers take the client mutex","CreateTable, DeleteTable, UpdateTable, DescribeTable, SetInterpreter, GetNativeInterpreter, SetItemCollectionMetrics, ClearTable's lookup and the batch/transact reads of the failure switch touched shared client state without the mutex: data races, and non-linearizable outcomes such as two racing CreateTable of one name both succeeding")
