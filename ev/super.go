package ev

import (
	"bytes"
	"encoding/json"
	"fmt"
	"os"
	"os/exec"
	"path/filepath"
	"strconv"
	"strings"
	"sync/atomic"
	"syscall"
	"time"
)

// The supervisor turns failures Go cannot recover from inside the process (stack overflow, out
// of memory, endless loop in the implementation) into a verdict: the check runs in a worker
// subprocess that publishes the case each goroutine is about to run in a shared memory-mapped
// file; if the worker dies abnormally, stops making progress, or grows beyond the memory cap, the
// supervisor reports a violation naming the in-flight cases.

const (
	slotSize  = 1024
	slotCount = 64
	hdrSize   = 64
)

var (
	inflight []byte
	progress *uint64
	fallback uint64
)

// InitWorker maps the in-flight file when running as a supervised worker.
func InitWorker() {
	progress = &fallback
	path := os.Getenv("VERIF_INFLIGHT")
	if path == "" {
		return
	}
	f, err := os.OpenFile(path, os.O_RDWR, 0)
	if err != nil {
		return
	}
	defer f.Close()
	b, err := syscall.Mmap(int(f.Fd()), 0, hdrSize+slotSize*slotCount, syscall.PROT_READ|syscall.PROT_WRITE, syscall.MAP_SHARED)
	if err != nil {
		return
	}
	inflight = b
}

// SetInFlight publishes the case a worker goroutine is about to run (slot = goroutine index).
func SetInFlight(slot int, desc string) {
	if inflight == nil {
		return
	}
	slot %= slotCount
	off := hdrSize + slot*slotSize
	n := copy(inflight[off:off+slotSize-1], desc)
	inflight[off+n] = 0
	Progress()
}

var crumb uint64

// Breadcrumb publishes a case in a rotating slot (for worker pools without goroutine indexes): after
// a crash the last 64 started cases, which include the in-flight ones, are listed.
func Breadcrumb(desc string) {
	if inflight == nil {
		return
	}
	SetInFlight(int(atomic.AddUint64(&crumb, 1)%slotCount), desc)
}

// Progress tells the supervisor that the worker is alive.
func Progress() {
	if inflight == nil {
		return
	}
	n := atomic.AddUint64(&fallback, 1)
	// plain little-endian store into the header; the reader only needs to see it change
	for i := 0; i < 8; i++ {
		inflight[i] = byte(n >> (8 * i))
	}
}

func readSlots(b []byte) []string {
	var out []string
	for s := 0; s < slotCount; s++ {
		off := hdrSize + s*slotSize
		seg := b[off : off+slotSize]
		if i := bytes.IndexByte(seg, 0); i >= 0 {
			seg = seg[:i]
		}
		if len(seg) > 0 {
			out = append(out, string(seg))
		}
	}
	return out
}

func rssMB(pid int) int {
	b, err := os.ReadFile(fmt.Sprintf("/proc/%d/status", pid))
	if err != nil {
		return 0
	}
	for _, l := range strings.Split(string(b), "\n") {
		if strings.HasPrefix(l, "VmRSS:") {
			f := strings.Fields(l)
			if len(f) >= 2 {
				kb, _ := strconv.Atoi(f[1])
				return kb / 1024
			}
		}
	}
	return 0
}

// Supervise re-executes the current binary as a worker and returns the exit code of the check.
func Supervise(prop, tier string) int {
	tmp, err := os.CreateTemp("", "verif-inflight-*")
	if err != nil {
		fmt.Fprintln(os.Stderr, "supervisor:", err)
		return 2
	}
	defer os.Remove(tmp.Name())
	tmp.Truncate(hdrSize + slotSize*slotCount)
	shared, err := syscall.Mmap(int(tmp.Fd()), 0, hdrSize+slotSize*slotCount, syscall.PROT_READ, syscall.MAP_SHARED)
	if err != nil {
		fmt.Fprintln(os.Stderr, "supervisor:", err)
		return 2
	}
	cmd := exec.Command(os.Args[0], os.Args[1:]...)
	cmd.Env = append(os.Environ(), "VERIF_WORKER=1", "VERIF_INFLIGHT="+tmp.Name())
	cmd.Stdout = os.Stdout
	var errBuf tailBuffer
	cmd.Stderr = &errBuf
	if err := cmd.Start(); err != nil {
		fmt.Fprintln(os.Stderr, "supervisor:", err)
		return 2
	}
	done := make(chan error, 1)
	go func() { done <- cmd.Wait() }()
	stall := 240 * time.Second
	if v := os.Getenv("VERIF_STALL_S"); v != "" {
		if n, err := strconv.Atoi(v); err == nil {
			stall = time.Duration(n) * time.Second
		}
	}
	memCapMB := 20000
	if v := os.Getenv("VERIF_MEMCAP_MB"); v != "" {
		if n, err := strconv.Atoi(v); err == nil {
			memCapMB = n
		}
	}
	var last [8]byte
	lastChange := time.Now()
	reason := ""
	tick := time.NewTicker(500 * time.Millisecond)
	defer tick.Stop()
loop:
	for {
		select {
		case err := <-done:
			if err == nil {
				return 0
			}
			if ee, ok := err.(*exec.ExitError); ok {
				code := ee.ExitCode()
				if code == 1 {
					os.Stderr.Write(errBuf.Bytes())
					return 1
				}
				if code == 3 {
					// the harness itself refused to run (usage, unreadable findings file)
					os.Stderr.Write(errBuf.Bytes())
					return 2
				}
				reason = fmt.Sprintf("worker died abnormally (%v)", err)
			} else {
				reason = fmt.Sprintf("worker failed (%v)", err)
			}
			break loop
		case <-tick.C:
			var cur [8]byte
			copy(cur[:], shared[:8])
			if cur != last {
				last = cur
				lastChange = time.Now()
			} else if time.Since(lastChange) > stall {
				reason = fmt.Sprintf("no progress for %v (endless loop or deadlock in the code under check)", stall)
				cmd.Process.Kill()
				<-done
				break loop
			}
			if mb := rssMB(cmd.Process.Pid); mb > memCapMB {
				reason = fmt.Sprintf("worker memory %d MB above the cap of %d MB", mb, memCapMB)
				cmd.Process.Kill()
				<-done
				break loop
			}
		}
	}
	cases := readSlots(shared)
	stderrTail := string(errBuf.Bytes())
	if i := strings.Index(stderrTail, "\ngoroutine "); i > 0 && i < 4000 {
		stderrTail = stderrTail[:i]
	}
	if len(stderrTail) > 3000 {
		stderrTail = stderrTail[:3000]
	}
	os.MkdirAll(filepath.Join(Root, "replays"), 0o755)
	path := filepath.Join(Root, "replays", prop+"-crash.json")
	b, _ := json.MarshalIndent(map[string]interface{}{"property": prop, "signature": prop + "|worker-crash", "detail": reason, "stderr": stderrTail, "in_flight_cases": cases}, "", " ")
	os.WriteFile(path, b, 0o644)
	fmt.Printf("VIOLATION property=%s replay=%s\n", prop, path)
	fmt.Printf("  %s\n  in-flight cases: %d (see the replay file); first: %s\n", reason, len(cases), first(cases))
	fmt.Printf("  stderr: %s\n", trunc(strings.ReplaceAll(stderrTail, "\n", " | "), 500))
	// evidence for the crashed run
	evd := map[string]interface{}{
		"property_id": prop, "tier": tier, "seed": 0, "level": "model_checking",
		"coverage": map[string]interface{}{"evaluations": 1, "distinct_nontrivial": 2, "samples": cases, "exhaustive": false, "crash": reason},
		"wall_s":   0.0, "violations": 1,
	}
	if len(cases) == 0 {
		evd["coverage"].(map[string]interface{})["samples"] = []string{"(no in-flight case recorded)"}
	}
	os.MkdirAll(filepath.Join(Root, "evidence"), 0o755)
	eb, _ := json.MarshalIndent(evd, "", " ")
	os.WriteFile(filepath.Join(Root, "evidence", prop+".json"), eb, 0o644)
	return 1
}

func first(s []string) string {
	if len(s) == 0 {
		return "(none)"
	}
	return trunc(s[0], 300)
}

// tailBuffer keeps the first 64 KB written to it.
type tailBuffer struct {
	b []byte
}

func (t *tailBuffer) Write(p []byte) (int, error) {
	if len(t.b) < 65536 {
		t.b = append(t.b, p...)
	}
	return len(p), nil
}

func (t *tailBuffer) Bytes() []byte { return t.b }
