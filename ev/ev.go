// Package ev collects the outcome of one check run: violations (matched against the committed
// known-findings file), replay artefacts, and the evidence file.
package ev

import (
	"crypto/sha256"
	"encoding/hex"
	"encoding/json"
	"fmt"
	"os"
	"path/filepath"
	"sort"
	"strconv"
	"strings"
	"sync"
	"time"
)

// Root is the /verif directory (overridable for tests).
var Root = "/verif"

// Finding is one entry of known_findings.json.
type Finding struct {
	Property   string          `json:"property"`
	ID         string          `json:"id"`
	Status     string          `json:"status"` // known | fixed
	Signatures []string        `json:"signatures"`
	What       string          `json:"what"`
	Commit     string          `json:"commit,omitempty"`
	Witness    json.RawMessage `json:"witness,omitempty"`
}

// Violation is one observed divergence.
type Violation struct {
	Sig    string      `json:"signature"`
	Detail string      `json:"detail"`
	Replay interface{} `json:"replay"`
}

// Run is the state of one check run.
type Run struct {
	Prop  string
	Tier  string
	Seed  int64
	Start time.Time

	known []Finding

	mu        sync.Mutex
	knownHits map[string]int       // finding id -> occurrences
	knownSigs map[string]int       // signature -> occurrences
	unlisted  map[string]Violation // first violation per unlisted signature
	unlistedN map[string]int
	order     []string
	Notes     []string
	Assume    []string
	Level     string
}

// NewRun loads the known findings of the property.
func NewRun(prop, tier string) *Run {
	seed, _ := strconv.ParseInt(os.Getenv("VERIF_SEED"), 10, 64)
	r := &Run{Prop: prop, Tier: tier, Seed: seed, Start: time.Now(), knownHits: map[string]int{}, knownSigs: map[string]int{},
		unlisted: map[string]Violation{}, unlistedN: map[string]int{}, Level: "model_checking"}
	b, err := os.ReadFile(filepath.Join(Root, "known_findings.json"))
	if err == nil {
		var all []Finding
		if err := json.Unmarshal(b, &all); err != nil {
			fmt.Fprintln(os.Stderr, "known_findings.json:", err)
			os.Exit(3)
		}
		for _, f := range all {
			if f.Property == prop {
				r.known = append(r.known, f)
			}
		}
	}
	return r
}

func sigMatch(pattern, sig string) bool {
	if strings.HasSuffix(pattern, "*") {
		return strings.HasPrefix(sig, strings.TrimSuffix(pattern, "*"))
	}
	return pattern == sig
}

// Known reports whether a signature is listed by a finding with status "known" (without recording it).
func (r *Run) Known(sig string) bool {
	for _, f := range r.known {
		if f.Status != "known" {
			continue
		}
		for _, p := range f.Signatures {
			if sigMatch(p, sig) {
				return true
			}
		}
	}
	return false
}

// Report records a violation. It returns true when the signature is a listed known finding.
func (r *Run) Report(sig, detail string, replay interface{}) bool {
	r.mu.Lock()
	defer r.mu.Unlock()
	for _, f := range r.known {
		if f.Status != "known" {
			continue
		}
		for _, p := range f.Signatures {
			if sigMatch(p, sig) {
				r.knownHits[f.ID]++
				r.knownSigs[sig]++
				return true
			}
		}
	}
	if _, ok := r.unlisted[sig]; !ok {
		r.unlisted[sig] = Violation{Sig: sig, Detail: detail, Replay: replay}
		r.order = append(r.order, sig)
	}
	r.unlistedN[sig]++
	return false
}

// Unlisted returns the number of distinct unlisted signatures seen so far.
func (r *Run) Unlisted() int {
	r.mu.Lock()
	defer r.mu.Unlock()
	return len(r.unlisted)
}

// Note adds a free-text note to the evidence.
func (r *Run) Note(format string, a ...interface{}) {
	r.mu.Lock()
	defer r.mu.Unlock()
	r.Notes = append(r.Notes, fmt.Sprintf(format, a...))
}

func shortHash(s string) string {
	h := sha256.Sum256([]byte(s))
	return hex.EncodeToString(h[:5])
}

// Finish prints the KNOWN-FINDING / VIOLATION lines, writes replay files and the evidence file,
// and returns the process exit code. cov must contain the coverage keys of the level.
func (r *Run) Finish(cov map[string]interface{}) int {
	r.mu.Lock()
	defer r.mu.Unlock()
	for _, f := range r.known {
		if f.Status == "known" && r.knownHits[f.ID] > 0 {
			fmt.Printf("KNOWN-FINDING: property=%s %s [%s, %d occurrences]\n", r.Prop, f.What, f.ID, r.knownHits[f.ID])
		}
	}
	os.MkdirAll(filepath.Join(Root, "replays"), 0o755)
	sort.Strings(r.order)
	const maxLines = 25
	for i, sig := range r.order {
		v := r.unlisted[sig]
		path := filepath.Join(Root, "replays", fmt.Sprintf("%s-%s.json", r.Prop, shortHash(sig)))
		b, _ := json.MarshalIndent(map[string]interface{}{"property": r.Prop, "signature": v.Sig, "detail": v.Detail, "occurrences": r.unlistedN[sig], "replay": v.Replay}, "", " ")
		os.WriteFile(path, b, 0o644)
		if i < maxLines {
			fmt.Printf("VIOLATION property=%s replay=%s\n", r.Prop, path)
			fmt.Printf("  signature: %s\n  detail: %s\n", v.Sig, trunc(v.Detail, 600))
		}
	}
	if len(r.order) > maxLines {
		fmt.Printf("  ... and %d more distinct violation signatures (replay files written)\n", len(r.order)-maxLines)
	}
	total := 0
	for _, n := range r.unlistedN {
		total += n
	}
	kf := map[string]int{}
	for k, v := range r.knownHits {
		kf[k] = v
	}
	ks := map[string]int{}
	for k, v := range r.knownSigs {
		ks[k] = v
	}
	cov["known_finding_occurrences"] = kf
	cov["known_finding_signatures"] = ks
	if len(r.Notes) > 0 {
		cov["notes"] = r.Notes
	}
	evd := map[string]interface{}{
		"property_id": r.Prop,
		"tier":        r.Tier,
		"seed":        r.Seed,
		"level":       r.Level,
		"coverage":    cov,
		"assumptions": r.Assume,
		"wall_s":      time.Since(r.Start).Seconds(),
		"violations":  len(r.order),
	}
	if r.Assume == nil {
		evd["assumptions"] = []string{}
	}
	os.MkdirAll(filepath.Join(Root, "evidence"), 0o755)
	b, _ := json.MarshalIndent(evd, "", " ")
	if err := os.WriteFile(filepath.Join(Root, "evidence", r.Prop+".json"), b, 0o644); err != nil {
		fmt.Fprintln(os.Stderr, "evidence:", err)
		return 2
	}
	fmt.Printf("%s %s: %s wall=%.1fs unlisted_violation_signatures=%d (occurrences %d) known_finding_occurrences=%d\n",
		r.Prop, r.Tier, covSummary(cov), time.Since(r.Start).Seconds(), len(r.order), total, sum(r.knownHits))
	if len(r.order) > 0 {
		return 1
	}
	return 0
}

func sum(m map[string]int) int {
	n := 0
	for _, v := range m {
		n += v
	}
	return n
}

func trunc(s string, n int) string {
	if len(s) > n {
		return s[:n] + "…"
	}
	return s
}

func covSummary(cov map[string]interface{}) string {
	var p []string
	for _, k := range []string{"states", "transitions", "traces_validated_against_impl", "schedules", "evaluations", "distinct_nontrivial", "exhaustive", "max_depth"} {
		if v, ok := cov[k]; ok {
			p = append(p, fmt.Sprintf("%s=%v", k, v))
		}
	}
	return strings.Join(p, " ")
}
