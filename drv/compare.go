package drv

import (
	"fmt"
	"sort"
	"strings"

	"verif/val"
)

// rejectClass reports whether an implementation class counts as "the request was rejected":
// any returned error, or the documented panic carrying a syntax/unsupported error.
func rejectClass(c string) bool {
	return c != "" && c != EPanicRT
}

func errorClass(c string) bool {
	return c != "" && !strings.HasPrefix(c, "PANIC")
}

func classOK(got string, want string) bool {
	switch want {
	case EAnyReject:
		return rejectClass(got)
	case EAnyErr:
		return errorClass(got)
	}
	if want == EValidation && got == EInvalidPar {
		return true // SDK v1 client-side request validation is a validation error too
	}
	return got == want
}

// ErrMatches checks the error class of an implementation response against the model's.
func ErrMatches(got, want Resp) bool {
	if len(want.ErrSet) > 0 {
		for _, w := range want.ErrSet {
			if classOK(got.Err, w) {
				return true
			}
		}
		return false
	}
	return classOK(got.Err, want.Err)
}

// WantErrString renders the model's expectation.
func WantErrString(want Resp) string {
	if len(want.ErrSet) > 0 {
		return fmt.Sprintf("%q", want.ErrSet)
	}
	if want.Err == "" {
		return "success"
	}
	return want.Err
}

func multiset(items []val.Item) []string {
	s := make([]string, len(items))
	for i, it := range items {
		s[i] = it.Canon()
	}
	sort.Strings(s)
	return s
}

func sameMultiset(a, b []val.Item) bool {
	x, y := multiset(a), multiset(b)
	if len(x) != len(y) {
		return false
	}
	for i := range x {
		if x[i] != y[i] {
			return false
		}
	}
	return true
}

// Diff describes one divergence: Kind is a short deterministic class (used in signatures),
// Detail the concrete data.
type Diff struct {
	Kind   string
	Detail string
}

func (d *Diff) String() string {
	if d == nil {
		return ""
	}
	return d.Kind + ": " + d.Detail
}

// Compare checks an implementation response against the model's expectation for the same
// operation. nil means conforming.
func Compare(op Op, got, want Resp) *Diff {
	if !ErrMatches(got, want) {
		return &Diff{Kind: fmt.Sprintf("%s|class|want=%s|got=%s", op.K, WantErrString(want), orOK(got.Err)), Detail: got.Msg}
	}
	if got.Err != "" {
		if want.Err == ECCF && op.RetOnFail {
			if !val.ItemEqual(got.CCFItem, want.CCFItem) {
				return &Diff{Kind: op.K + "|ccf-item", Detail: fmt.Sprintf("want %s got %s", want.CCFItem.Canon(), got.CCFItem.Canon())}
			}
		}
		return nil
	}
	switch op.K {
	case KGet, KUpd, KDel:
		if want.NoItemCmp {
			return nil
		}
		if op.K == KDel && !op.AllOld {
			return nil
		}
		if val.ItemEqual(got.Item, want.Item) {
			return nil
		}
		for _, a := range want.AltItems {
			if val.ItemEqual(got.Item, a) {
				return nil
			}
		}
		return &Diff{Kind: op.K + "|item", Detail: fmt.Sprintf("want %s got %s", want.Item.Canon(), got.Item.Canon())}
	case KQuery, KScan:
		if want.NoItemCmp {
			return nil
		}
		if got.Count != len(got.Items) {
			return &Diff{Kind: op.K + "|count", Detail: fmt.Sprintf("Count=%d but %d items", got.Count, len(got.Items))}
		}
		if !sameMultiset(got.Items, want.Items) {
			return &Diff{Kind: op.K + "|" + idxTag(op) + "|items" + cmpSizes(len(got.Items), len(want.Items)), Detail: fmt.Sprintf("want %v got %v", multiset(want.Items), multiset(got.Items))}
		}
		if op.K == KQuery && want.SortAttr != "" {
			for i := range got.Items {
				a, b := got.Items[i][want.SortAttr], want.Items[i][want.SortAttr]
				if !val.Equal(a, b) {
					return &Diff{Kind: op.K + "|" + idxTag(op) + "|order|" + a.T, Detail: fmt.Sprintf("position %d: want sort key %s got %s (want %v got %v)", i, b.Canon(), a.Canon(), seq(want.Items, want.SortAttr), seq(got.Items, want.SortAttr))}
				}
			}
		}
		return nil
	case KCreate, KDeleteTbl, KDescribe, KCreateGSI, KDeleteGSI, KUpdateTbl:
		if want.Desc == nil {
			return nil
		}
		return CompareDesc(op, got.Desc, want.Desc)
	case KBatchWrite:
		if len(got.Unproc) != len(want.Unproc) {
			return &Diff{Kind: op.K + "|unprocessed", Detail: fmt.Sprintf("want %d unprocessed got %d", len(want.Unproc), len(got.Unproc))}
		}
		x, y := bwCanon(got.Unproc), bwCanon(want.Unproc)
		for i := range x {
			if x[i] != y[i] {
				return &Diff{Kind: op.K + "|unprocessed", Detail: fmt.Sprintf("want %v got %v", y, x)}
			}
		}
		return nil
	case KBatchGet:
		for t, items := range want.BGResp {
			if !sameMultiset(got.BGResp[t], items) {
				return &Diff{Kind: op.K + "|responses", Detail: fmt.Sprintf("table %s: want %v got %v", t, multiset(items), multiset(got.BGResp[t]))}
			}
		}
		for t, items := range got.BGResp {
			if _, ok := want.BGResp[t]; !ok && len(items) > 0 {
				return &Diff{Kind: op.K + "|responses", Detail: "unexpected table " + t}
			}
		}
		for t, keys := range got.BGUnproc {
			if len(keys) > 0 {
				return &Diff{Kind: op.K + "|unprocessed-keys", Detail: fmt.Sprintf("table %s: %d keys reported unprocessed", t, len(keys))}
			}
		}
		return nil
	}
	return nil
}

func idxTag(op Op) string {
	if op.Index == "" {
		return "base"
	}
	return "index"
}

func cmpSizes(got, want int) string {
	switch {
	case got < want:
		return "|missing"
	case got > want:
		return "|extra"
	}
	return "|different"
}

func seq(items []val.Item, attr string) []string {
	o := make([]string, len(items))
	for i, it := range items {
		o[i] = it[attr].CanonText()
	}
	return o
}

func bwCanon(rs []BWReq) []string {
	o := make([]string, len(rs))
	for i, r := range rs {
		if r.Put != nil {
			o[i] = r.Table + " put " + r.Put.Canon()
		} else {
			o[i] = r.Table + " del " + r.Del.Canon()
		}
	}
	sort.Strings(o)
	return o
}

func orOK(s string) string {
	if s == "" {
		return "success"
	}
	return s
}

// CompareDesc compares table descriptions: name, item count, key schema, index names, schemas
// and item counts.
func CompareDesc(op Op, got, want *Desc) *Diff {
	if got == nil {
		return &Diff{Kind: op.K + "|desc-missing", Detail: "no table description"}
	}
	if got.Name != want.Name || got.Hash != want.Hash || got.Range != want.Range {
		return &Diff{Kind: op.K + "|desc-schema", Detail: fmt.Sprintf("want %+v got %+v", *want, *got)}
	}
	if got.Count != want.Count {
		return &Diff{Kind: op.K + "|desc-itemcount", Detail: fmt.Sprintf("want %d got %d", want.Count, got.Count)}
	}
	if len(got.Indexes) != len(want.Indexes) {
		return &Diff{Kind: op.K + "|desc-indexes", Detail: fmt.Sprintf("want %+v got %+v", want.Indexes, got.Indexes)}
	}
	for i := range want.Indexes {
		w, g := want.Indexes[i], got.Indexes[i]
		if w.Name != g.Name || w.Local != g.Local || w.Hash != g.Hash || w.Range != g.Range {
			return &Diff{Kind: op.K + "|desc-indexes", Detail: fmt.Sprintf("want %+v got %+v", want.Indexes, got.Indexes)}
		}
		if !g.HasCount {
			return &Diff{Kind: op.K + "|desc-index-count-absent", Detail: fmt.Sprintf("index %s carries no ItemCount", g.Name)}
		}
		if w.Count != g.Count {
			return &Diff{Kind: op.K + "|desc-index-count", Detail: fmt.Sprintf("index %s: want %d got %d", g.Name, w.Count, g.Count)}
		}
	}
	return nil
}
