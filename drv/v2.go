package drv

import (
	"context"
	"errors"
	"fmt"
	"sort"

	"github.com/aws/aws-sdk-go-v2/aws"
	"github.com/aws/aws-sdk-go-v2/service/dynamodb"
	"github.com/aws/aws-sdk-go-v2/service/dynamodb/types"
	v2 "github.com/truora/minidyn/aws-v2/client"
	"github.com/truora/minidyn/interpreter"

	"verif/val"
)

// V2 drives the aws-v2 client.
type V2 struct {
	C *v2.Client
}

// NewV2 creates a fresh client.
func NewV2() *V2 { return &V2{C: v2.NewClient()} }

func (d *V2) Name() string     { return "v2" }
func (d *V2) Raw() interface{} { return d.C }

// ToV2 converts a value to the SDK v2 representation (fresh memory).
func ToV2(v val.V) types.AttributeValue {
	switch v.T {
	case "S":
		return &types.AttributeValueMemberS{Value: v.S}
	case "N":
		return &types.AttributeValueMemberN{Value: v.S}
	case "B":
		return &types.AttributeValueMemberB{Value: append([]byte{}, v.B...)}
	case "BOOL":
		return &types.AttributeValueMemberBOOL{Value: v.Bo}
	case "NULL":
		return &types.AttributeValueMemberNULL{Value: true}
	case "L":
		l := make([]types.AttributeValue, len(v.L))
		for i, x := range v.L {
			l[i] = ToV2(x)
		}
		return &types.AttributeValueMemberL{Value: l}
	case "M":
		return &types.AttributeValueMemberM{Value: ItemToV2(v.M)}
	case "SS":
		return &types.AttributeValueMemberSS{Value: append([]string{}, v.SS...)}
	case "NS":
		return &types.AttributeValueMemberNS{Value: append([]string{}, v.SS...)}
	case "BS":
		bs := make([][]byte, len(v.BS))
		for i, b := range v.BS {
			bs[i] = append([]byte{}, b...)
		}
		return &types.AttributeValueMemberBS{Value: bs}
	}
	panic("bad val type " + v.T)
}

// ItemToV2 converts an item (nil stays nil).
func ItemToV2(it map[string]val.V) map[string]types.AttributeValue {
	if it == nil {
		return nil
	}
	o := make(map[string]types.AttributeValue, len(it))
	for k, v := range it {
		o[k] = ToV2(v)
	}
	return o
}

// FromV2 converts back, copying all memory.
func FromV2(a types.AttributeValue) val.V {
	switch x := a.(type) {
	case *types.AttributeValueMemberS:
		return val.S(x.Value)
	case *types.AttributeValueMemberN:
		return val.N(x.Value)
	case *types.AttributeValueMemberB:
		return val.V{T: "B", B: append([]byte{}, x.Value...)}
	case *types.AttributeValueMemberBOOL:
		return val.Bool(x.Value)
	case *types.AttributeValueMemberNULL:
		if !x.Value {
			return val.V{T: "?NULL(false)"} // not a value DynamoDB knows
		}
		return val.Null()
	case *types.AttributeValueMemberL:
		l := make([]val.V, len(x.Value))
		for i, e := range x.Value {
			l[i] = FromV2(e)
		}
		return val.V{T: "L", L: l}
	case *types.AttributeValueMemberM:
		return val.V{T: "M", M: ItemFromV2(x.Value)}
	case *types.AttributeValueMemberSS:
		return val.V{T: "SS", SS: append([]string{}, x.Value...)}
	case *types.AttributeValueMemberNS:
		return val.V{T: "NS", SS: append([]string{}, x.Value...)}
	case *types.AttributeValueMemberBS:
		bs := make([][]byte, len(x.Value))
		for i, b := range x.Value {
			bs[i] = append([]byte{}, b...)
		}
		return val.V{T: "BS", BS: bs}
	}
	return val.V{T: fmt.Sprintf("?%T", a)}
}

// ItemFromV2 converts an SDK item (nil stays nil).
func ItemFromV2(m map[string]types.AttributeValue) val.Item {
	if m == nil {
		return nil
	}
	o := make(val.Item, len(m))
	for k, v := range m {
		o[k] = FromV2(v)
	}
	return o
}

func itemsFromV2(ms []map[string]types.AttributeValue) []val.Item {
	o := make([]val.Item, len(ms))
	for i, m := range ms {
		o[i] = ItemFromV2(m)
	}
	return o
}

// classify maps an error of either SDK (or an internal one) to a class.
func classify(err error) (string, string) {
	if err == nil {
		return "", ""
	}
	msg := err.Error()
	var ec interface{ ErrorCode() string }
	if errors.As(err, &ec) {
		return normCode(ec.ErrorCode()), msg
	}
	var cc interface{ Code() string }
	if errors.As(err, &cc) {
		return normCode(cc.Code()), msg
	}
	switch {
	case errors.Is(err, v2.ErrForcedFailure), errors.Is(err, v1ErrForced):
		return EForced, msg
	case errors.Is(err, interpreter.ErrSyntaxError):
		return ESyntax, msg
	case errors.Is(err, interpreter.ErrUnsupportedFeature):
		return EUnsupp, msg
	}
	return "Other:" + fmt.Sprintf("%T", err), msg
}

func normCode(c string) string {
	switch c {
	case ECCF, EValidation, ENotFound, EInUse, EInternal, EInvalidPar:
		return c
	case "InternalServerError ":
		return EInternal
	}
	return "Other:" + c
}

// guard runs f, converting a panic into a response class.
func guard(f func() Resp) (r Resp) {
	defer func() {
		if p := recover(); p != nil {
			r = Resp{Msg: fmt.Sprint(p)}
			if e, ok := p.(error); ok {
				switch {
				case errors.Is(e, interpreter.ErrSyntaxError):
					r.Err = EPanicSyn
					return
				case errors.Is(e, interpreter.ErrUnsupportedFeature):
					r.Err = EPanicUns
					return
				}
			}
			r.Err = EPanicRT
		}
	}()
	return f()
}

func errResp(err error) Resp {
	c, m := classify(err)
	return Resp{Err: c, Msg: m}
}

func scalarV2(t string) types.ScalarAttributeType { return types.ScalarAttributeType(t) }

func keySchemaV2(h, r string) []types.KeySchemaElement {
	ks := []types.KeySchemaElement{{AttributeName: aws.String(h), KeyType: types.KeyTypeHash}}
	if r != "" {
		ks = append(ks, types.KeySchemaElement{AttributeName: aws.String(r), KeyType: types.KeyTypeRange})
	}
	return ks
}

func throughputV2(on bool) *types.ProvisionedThroughput {
	if !on {
		return nil
	}
	return &types.ProvisionedThroughput{ReadCapacityUnits: aws.Int64(5), WriteCapacityUnits: aws.Int64(5)}
}

// AttrDefs lists the attribute definitions a table configuration needs, sorted by name.
func AttrDefs(cfg *TableCfg) [][2]string {
	m := map[string]string{cfg.Hash: cfg.HashT}
	if cfg.Range != "" {
		m[cfg.Range] = cfg.RangeT
	}
	for _, ix := range append(append([]IndexCfg{}, cfg.GSI...), cfg.LSI...) {
		m[ix.Hash] = ix.HashT
		if ix.Range != "" {
			m[ix.Range] = ix.RangeT
		}
	}
	names := make([]string, 0, len(m))
	for n := range m {
		names = append(names, n)
	}
	sort.Strings(names)
	o := make([][2]string, len(names))
	for i, n := range names {
		o[i] = [2]string{n, m[n]}
	}
	return o
}

func descFromV2(td *types.TableDescription) *Desc {
	if td == nil {
		return nil
	}
	d := &Desc{Name: aws.ToString(td.TableName), Count: aws.ToInt64(td.ItemCount), Indexes: []IndexDesc{}}
	for _, k := range td.KeySchema {
		if k.KeyType == types.KeyTypeHash {
			d.Hash = aws.ToString(k.AttributeName)
		} else {
			d.Range = aws.ToString(k.AttributeName)
		}
	}
	for _, g := range td.GlobalSecondaryIndexes {
		ix := IndexDesc{Name: aws.ToString(g.IndexName), Count: aws.ToInt64(g.ItemCount), HasCount: g.ItemCount != nil}
		for _, k := range g.KeySchema {
			if k.KeyType == types.KeyTypeHash {
				ix.Hash = aws.ToString(k.AttributeName)
			} else {
				ix.Range = aws.ToString(k.AttributeName)
			}
		}
		d.Indexes = append(d.Indexes, ix)
	}
	for _, g := range td.LocalSecondaryIndexes {
		ix := IndexDesc{Name: aws.ToString(g.IndexName), Local: true, Count: aws.ToInt64(g.ItemCount), HasCount: g.ItemCount != nil}
		for _, k := range g.KeySchema {
			if k.KeyType == types.KeyTypeHash {
				ix.Hash = aws.ToString(k.AttributeName)
			} else {
				ix.Range = aws.ToString(k.AttributeName)
			}
		}
		d.Indexes = append(d.Indexes, ix)
	}
	sort.Slice(d.Indexes, func(i, j int) bool { return d.Indexes[i].Name < d.Indexes[j].Name })
	return d
}

func copyNames(m map[string]string) map[string]string {
	if m == nil {
		return nil
	}
	o := make(map[string]string, len(m))
	for k, v := range m {
		o[k] = v
	}
	return o
}

var ctx = context.Background()

// Do executes one operation.
func (d *V2) Do(op Op) Resp {
	return guard(func() Resp { return d.do(op) })
}

func (d *V2) do(op Op) Resp {
	c := d.C
	switch op.K {
	case KCreate:
		cfg := op.Cfg
		in := &dynamodb.CreateTableInput{TableName: aws.String(op.Table), KeySchema: keySchemaV2(cfg.Hash, cfg.Range)}
		for _, ad := range AttrDefs(cfg) {
			in.AttributeDefinitions = append(in.AttributeDefinitions, types.AttributeDefinition{AttributeName: aws.String(ad[0]), AttributeType: scalarV2(ad[1])})
		}
		if cfg.Billing != "" {
			in.BillingMode = types.BillingMode(cfg.Billing)
		}
		in.ProvisionedThroughput = throughputV2(cfg.Throughput)
		for _, g := range cfg.GSI {
			in.GlobalSecondaryIndexes = append(in.GlobalSecondaryIndexes, types.GlobalSecondaryIndex{
				IndexName: aws.String(g.Name), KeySchema: keySchemaV2(g.Hash, g.Range),
				Projection:            &types.Projection{ProjectionType: types.ProjectionTypeAll},
				ProvisionedThroughput: throughputV2(g.Throughput),
			})
		}
		for _, g := range cfg.LSI {
			in.LocalSecondaryIndexes = append(in.LocalSecondaryIndexes, types.LocalSecondaryIndex{
				IndexName: aws.String(g.Name), KeySchema: keySchemaV2(g.Hash, g.Range),
				Projection: &types.Projection{ProjectionType: types.ProjectionTypeAll},
			})
		}
		out, err := c.CreateTable(ctx, in)
		if err != nil {
			return errResp(err)
		}
		return Resp{Desc: descFromV2(out.TableDescription)}
	case KAddTable:
		return errResp(v2.AddTable(ctx, c, op.Table, op.Cfg.Hash, op.Cfg.Range))
	case KDeleteTbl:
		out, err := c.DeleteTable(ctx, &dynamodb.DeleteTableInput{TableName: aws.String(op.Table)})
		if err != nil {
			return errResp(err)
		}
		return Resp{Desc: descFromV2(out.TableDescription)}
	case KDescribe:
		out, err := c.DescribeTable(ctx, &dynamodb.DescribeTableInput{TableName: aws.String(op.Table)})
		if err != nil {
			return errResp(err)
		}
		return Resp{Desc: descFromV2(out.Table)}
	case KCreateGSI:
		g := op.IdxCfg
		in := &dynamodb.UpdateTableInput{TableName: aws.String(op.Table)}
		in.AttributeDefinitions = append(in.AttributeDefinitions, types.AttributeDefinition{AttributeName: aws.String(g.Hash), AttributeType: scalarV2(g.HashT)})
		if g.Range != "" {
			in.AttributeDefinitions = append(in.AttributeDefinitions, types.AttributeDefinition{AttributeName: aws.String(g.Range), AttributeType: scalarV2(g.RangeT)})
		}
		in.GlobalSecondaryIndexUpdates = []types.GlobalSecondaryIndexUpdate{{Create: &types.CreateGlobalSecondaryIndexAction{
			IndexName: aws.String(g.Name), KeySchema: keySchemaV2(g.Hash, g.Range),
			Projection:            &types.Projection{ProjectionType: types.ProjectionTypeAll},
			ProvisionedThroughput: throughputV2(g.Throughput),
		}}}
		out, err := c.UpdateTable(ctx, in)
		if err != nil {
			return errResp(err)
		}
		return Resp{Desc: descFromV2(out.TableDescription)}
	case KDeleteGSI:
		in := &dynamodb.UpdateTableInput{TableName: aws.String(op.Table)}
		if op.IdxCfg != nil {
			in.AttributeDefinitions = []types.AttributeDefinition{{AttributeName: aws.String(op.IdxCfg.Hash), AttributeType: scalarV2(op.IdxCfg.HashT)}}
		}
		in.GlobalSecondaryIndexUpdates = []types.GlobalSecondaryIndexUpdate{{Delete: &types.DeleteGlobalSecondaryIndexAction{IndexName: aws.String(op.Index)}}}
		out, err := c.UpdateTable(ctx, in)
		if err != nil {
			return errResp(err)
		}
		return Resp{Desc: descFromV2(out.TableDescription)}
	case KUpdateTbl:
		in := &dynamodb.UpdateTableInput{TableName: aws.String(op.Table)}
		for _, ch := range op.Changes {
			if g := ch.Create; g != nil {
				in.AttributeDefinitions = append(in.AttributeDefinitions, types.AttributeDefinition{AttributeName: aws.String(g.Hash), AttributeType: scalarV2(g.HashT)})
				if g.Range != "" {
					in.AttributeDefinitions = append(in.AttributeDefinitions, types.AttributeDefinition{AttributeName: aws.String(g.Range), AttributeType: scalarV2(g.RangeT)})
				}
				in.GlobalSecondaryIndexUpdates = append(in.GlobalSecondaryIndexUpdates, types.GlobalSecondaryIndexUpdate{Create: &types.CreateGlobalSecondaryIndexAction{
					IndexName: aws.String(g.Name), KeySchema: keySchemaV2(g.Hash, g.Range),
					Projection:            &types.Projection{ProjectionType: types.ProjectionTypeAll},
					ProvisionedThroughput: throughputV2(g.Throughput),
				}})
			} else {
				in.GlobalSecondaryIndexUpdates = append(in.GlobalSecondaryIndexUpdates, types.GlobalSecondaryIndexUpdate{Delete: &types.DeleteGlobalSecondaryIndexAction{IndexName: aws.String(ch.Delete)}})
			}
		}
		out, err := c.UpdateTable(ctx, in)
		if err != nil {
			return errResp(err)
		}
		return Resp{Desc: descFromV2(out.TableDescription)}
	case KAddIndex:
		g := op.IdxCfg
		return errResp(v2.AddIndex(ctx, c, op.Table, g.Name, g.Hash, g.Range))
	case KClear:
		return errResp(v2.ClearTable(c, op.Table))
	case KPut:
		in := &dynamodb.PutItemInput{TableName: aws.String(op.Table), Item: ItemToV2(op.Item),
			ConditionExpression: op.CondText(), ExpressionAttributeNames: copyNames(op.Names), ExpressionAttributeValues: ItemToV2(op.Values)}
		if op.RetOnFail {
			in.ReturnValuesOnConditionCheckFailure = types.ReturnValuesOnConditionCheckFailureAllOld
		}
		if op.RetVals != "" {
			in.ReturnValues = types.ReturnValue(op.RetVals)
		}
		_, err := c.PutItem(ctx, in)
		return withCCF(err)
	case KUpd:
		in := &dynamodb.UpdateItemInput{TableName: aws.String(op.Table), Key: ItemToV2(op.Key), UpdateExpression: op.UpdText(),
			ConditionExpression: op.CondText(), ExpressionAttributeNames: copyNames(op.Names), ExpressionAttributeValues: ItemToV2(op.Values),
			ReturnValues: types.ReturnValueAllNew}
		if op.RetOnFail {
			in.ReturnValuesOnConditionCheckFailure = types.ReturnValuesOnConditionCheckFailureAllOld
		}
		out, err := c.UpdateItem(ctx, in)
		if err != nil {
			return withCCF(err)
		}
		return Resp{Item: ItemFromV2(out.Attributes)}
	case KDel:
		in := &dynamodb.DeleteItemInput{TableName: aws.String(op.Table), Key: ItemToV2(op.Key),
			ConditionExpression: op.CondText(), ExpressionAttributeNames: copyNames(op.Names), ExpressionAttributeValues: ItemToV2(op.Values)}
		if op.AllOld {
			in.ReturnValues = types.ReturnValueAllOld
		}
		if op.RetOnFail {
			in.ReturnValuesOnConditionCheckFailure = types.ReturnValuesOnConditionCheckFailureAllOld
		}
		if op.RetVals != "" {
			in.ReturnValues = types.ReturnValue(op.RetVals)
		}
		out, err := c.DeleteItem(ctx, in)
		if err != nil {
			return withCCF(err)
		}
		return Resp{Item: ItemFromV2(out.Attributes)}
	case KGet:
		out, err := c.GetItem(ctx, &dynamodb.GetItemInput{TableName: aws.String(op.Table), Key: ItemToV2(op.Key)})
		if err != nil {
			return errResp(err)
		}
		return Resp{Item: ItemFromV2(out.Item)}
	case KQuery:
		in := &dynamodb.QueryInput{TableName: aws.String(op.Table), KeyConditionExpression: op.KeyText(), FilterExpression: op.FilterText(),
			ExpressionAttributeNames: copyNames(op.Names), ExpressionAttributeValues: ItemToV2(op.Values), ExclusiveStartKey: ItemToV2(op.ESK)}
		if op.Index != "" {
			in.IndexName = aws.String(op.Index)
		}
		if op.Reverse {
			in.ScanIndexForward = aws.Bool(false)
		}
		if op.Limit > 0 {
			in.Limit = aws.Int32(int32(op.Limit))
		}
		out, err := c.Query(ctx, in)
		if err != nil {
			return errResp(err)
		}
		return Resp{Items: itemsFromV2(out.Items), Count: int(out.Count), LEK: ItemFromV2(out.LastEvaluatedKey)}
	case KScan:
		in := &dynamodb.ScanInput{TableName: aws.String(op.Table), FilterExpression: op.FilterText(),
			ExpressionAttributeNames: copyNames(op.Names), ExpressionAttributeValues: ItemToV2(op.Values), ExclusiveStartKey: ItemToV2(op.ESK)}
		if op.ProjStr != nil {
			in.ProjectionExpression = aws.String(*op.ProjStr)
		}
		if op.Index != "" {
			in.IndexName = aws.String(op.Index)
		}
		if op.Limit > 0 {
			in.Limit = aws.Int32(int32(op.Limit))
		}
		out, err := c.Scan(ctx, in)
		if err != nil {
			return errResp(err)
		}
		return Resp{Items: itemsFromV2(out.Items), Count: int(out.Count), LEK: ItemFromV2(out.LastEvaluatedKey)}
	case KBatchWrite:
		in := &dynamodb.BatchWriteItemInput{RequestItems: map[string][]types.WriteRequest{}}
		for _, r := range op.Batch {
			wr := types.WriteRequest{}
			if r.Put != nil || r.Both {
				wr.PutRequest = &types.PutRequest{Item: ItemToV2(r.Put)}
			}
			if r.Del != nil || r.Both {
				wr.DeleteRequest = &types.DeleteRequest{Key: ItemToV2(r.Del)}
			}
			in.RequestItems[r.Table] = append(in.RequestItems[r.Table], wr)
		}
		out, err := c.BatchWriteItem(ctx, in)
		if err != nil {
			return errResp(err)
		}
		r := Resp{}
		for t, reqs := range out.UnprocessedItems {
			for _, q := range reqs {
				u := BWReq{Table: t}
				if q.PutRequest != nil {
					u.Put = ItemFromV2(q.PutRequest.Item)
				}
				if q.DeleteRequest != nil {
					u.Del = ItemFromV2(q.DeleteRequest.Key)
				}
				r.Unproc = append(r.Unproc, u)
			}
		}
		return r
	case KBatchGet:
		in := &dynamodb.BatchGetItemInput{RequestItems: map[string]types.KeysAndAttributes{}}
		for t, keys := range op.BGKeys {
			ka := types.KeysAndAttributes{}
			for _, k := range keys {
				ka.Keys = append(ka.Keys, ItemToV2(k))
			}
			in.RequestItems[t] = ka
		}
		out, err := c.BatchGetItem(ctx, in)
		if err != nil {
			return errResp(err)
		}
		r := Resp{BGResp: map[string][]val.Item{}, BGUnproc: map[string][]val.Item{}}
		for t, items := range out.Responses {
			r.BGResp[t] = itemsFromV2(items)
		}
		for t, ka := range out.UnprocessedKeys {
			r.BGUnproc[t] = itemsFromV2(ka.Keys)
		}
		return r
	case KTransact:
		_, err := c.TransactWriteItems(ctx, &dynamodb.TransactWriteItemsInput{})
		return errResp(err)
	case KActivateNative:
		c.ActivateNativeInterpreter()
		return Resp{}
	case KSetInterpreter:
		c.SetInterpreter(interpreter.NewNativeInterpreter())
		return Resp{}
	case KActivateDebug:
		c.ActivateDebug()
		return Resp{}
	case KSetICM:
		v2.SetItemCollectionMetrics(c, map[string][]types.ItemCollectionMetrics{})
		return Resp{}
	case KFail:
		switch op.Fail {
		case "active_force":
			v2.ActiveForceFailure(c)
		case "deactive_force":
			v2.DeactiveForceFailure(c)
		default:
			v2.EmulateFailure(c, v2.FailureCondition(op.Fail))
		}
		return Resp{}
	}
	panic("v2 driver: unknown op " + op.K)
}

func withCCF(err error) Resp {
	r := errResp(err)
	var ccf *types.ConditionalCheckFailedException
	if errors.As(err, &ccf) && ccf.Item != nil {
		r.CCFItem = ItemFromV2(ccf.Item)
	}
	return r
}
