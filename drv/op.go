// Package drv defines the SDK-neutral operations and responses, and the adapters that run
// them on the aws-v1 and aws-v2 minidyn clients.
package drv

import (
	"encoding/json"
	"fmt"
	"sort"
	"strings"

	"verif/rx"
	"verif/val"
)

// IndexCfg describes a secondary index.
type IndexCfg struct {
	Name       string `json:"name"`
	Hash       string `json:"hash"`
	HashT      string `json:"hashT"`
	Range      string `json:"range,omitempty"`
	RangeT     string `json:"rangeT,omitempty"`
	Local      bool   `json:"local,omitempty"`
	Throughput bool   `json:"throughput,omitempty"`
}

// IdxChange is one entry of a multi-change UpdateTable: create the index or delete the named one.
type IdxChange struct {
	Create *IndexCfg `json:"create,omitempty"`
	Delete string    `json:"delete,omitempty"`
}

// TableCfg describes a table to create.
type TableCfg struct {
	Hash       string     `json:"hash"`
	HashT      string     `json:"hashT"`
	Range      string     `json:"range,omitempty"`
	RangeT     string     `json:"rangeT,omitempty"`
	Billing    string     `json:"billing,omitempty"` // PAY_PER_REQUEST | PROVISIONED | ""
	Throughput bool       `json:"throughput,omitempty"`
	GSI        []IndexCfg `json:"gsi,omitempty"`
	LSI        []IndexCfg `json:"lsi,omitempty"`
}

// BWReq is one request of a BatchWriteItem.
type BWReq struct {
	Table string   `json:"table"`
	Put   val.Item `json:"put,omitempty"`
	Del   val.Item `json:"del,omitempty"`
	Both  bool     `json:"both,omitempty"`    // malformed: put and delete
	None  bool     `json:"neither,omitempty"` // malformed: neither
}

// Op is one abstract operation.
type Op struct {
	K     string `json:"k"`
	Tag   string `json:"tag,omitempty"` // short label used in violation signatures
	Table string `json:"table,omitempty"`
	Index string `json:"index,omitempty"`

	Cfg     *TableCfg   `json:"cfg,omitempty"`     // CreateTable
	IdxCfg  *IndexCfg   `json:"idxCfg,omitempty"`  // UpdateTable create GSI / AddIndex
	Changes []IdxChange `json:"changes,omitempty"` // UpdateTable with several index changes

	Item val.Item `json:"item,omitempty"` // Put
	Key  val.Item `json:"key,omitempty"`  // Get/Upd/Del

	Cond    *rx.Cond   `json:"cond,omitempty"`
	CondStr *string    `json:"condStr,omitempty"` // raw condition text (overrides Cond when printing)
	Upd     *rx.Update `json:"upd,omitempty"`
	UpdStr  *string    `json:"updStr,omitempty"`
	KeyCond *rx.Cond   `json:"keyCond,omitempty"`
	KeyStr  *string    `json:"keyStr,omitempty"`
	Filter  *rx.Cond   `json:"filter,omitempty"`
	FiltStr *string    `json:"filtStr,omitempty"`
	// RetVals, when set, is sent as the raw ReturnValues of PutItem / DeleteItem (PutItem and DeleteItem
	// accept NONE and ALL_OLD only)
	RetVals string `json:"retVals,omitempty"`
	// ProjStr is a raw ProjectionExpression (Scan only; the library does not interpret it beyond
	// the placeholder rules)
	ProjStr *string `json:"projStr,omitempty"`

	Names  map[string]string `json:"names,omitempty"`
	Values map[string]val.V  `json:"values,omitempty"`

	RetOnFail bool     `json:"retOnFail,omitempty"` // ReturnValuesOnConditionCheckFailure=ALL_OLD
	AllOld    bool     `json:"allOld,omitempty"`    // Delete ReturnValues=ALL_OLD
	Reverse   bool     `json:"reverse,omitempty"`
	Limit     int      `json:"limit,omitempty"`
	ESK       val.Item `json:"esk,omitempty"`

	Batch  []BWReq               `json:"batch,omitempty"`
	BGKeys map[string][]val.Item `json:"bgKeys,omitempty"`

	Fail string `json:"fail,omitempty"` // internal_server | deprecated | none | active_force | deactive_force
}

// Operation kinds.
const (
	KCreate     = "CreateTable"
	KAddTable   = "AddTable"
	KDeleteTbl  = "DeleteTable"
	KDescribe   = "DescribeTable"
	KCreateGSI  = "UpdateTable+GSI"
	KDeleteGSI  = "UpdateTable-GSI"
	KUpdateTbl  = "UpdateTable*" // several index changes in one request (Changes)
	KAddIndex   = "AddIndex"
	KClear      = "ClearTable"
	KPut        = "PutItem"
	KUpd        = "UpdateItem"
	KDel        = "DeleteItem"
	KGet        = "GetItem"
	KQuery      = "Query"
	KScan       = "Scan"
	KBatchWrite = "BatchWriteItem"
	KBatchGet   = "BatchGetItem"
	KTransact   = "TransactWriteItems"
	KFail       = "Fail"
	// test helpers exercised by the concurrency check only
	KActivateNative = "ActivateNativeInterpreter"
	KSetInterpreter = "SetInterpreter"
	KSetICM         = "SetItemCollectionMetrics"
	KActivateDebug  = "ActivateDebug"
)

func strOr(raw *string, s fmt.Stringer, isNil bool) *string {
	if raw != nil {
		return raw
	}
	if isNil {
		return nil
	}
	x := s.String()
	return &x
}

// CondText is the condition expression text sent to the implementation (nil = none).
func (o Op) CondText() *string { return strOr(o.CondStr, o.Cond, o.Cond == nil) }

// UpdText is the update expression text.
func (o Op) UpdText() *string { return strOr(o.UpdStr, o.Upd, o.Upd == nil) }

// KeyText is the key condition text.
func (o Op) KeyText() *string { return strOr(o.KeyStr, o.KeyCond, o.KeyCond == nil) }

// FilterText is the filter text.
func (o Op) FilterText() *string { return strOr(o.FiltStr, o.Filter, o.Filter == nil) }

// String is a compact one-line rendering for samples and replay files.
func (o Op) String() string {
	var p []string
	p = append(p, o.K)
	if o.Table != "" {
		p = append(p, "t="+o.Table)
	}
	if o.Index != "" {
		p = append(p, "idx="+o.Index)
	}
	if o.Cfg != nil {
		b, _ := json.Marshal(o.Cfg)
		p = append(p, string(b))
	}
	if o.IdxCfg != nil {
		b, _ := json.Marshal(o.IdxCfg)
		p = append(p, string(b))
	}
	if o.Changes != nil {
		b, _ := json.Marshal(o.Changes)
		p = append(p, string(b))
	}
	if o.Item != nil {
		p = append(p, "item="+o.Item.CanonText())
	}
	if o.Key != nil {
		p = append(p, "key="+o.Key.CanonText())
	}
	if s := o.KeyText(); s != nil {
		p = append(p, fmt.Sprintf("keycond=%q", *s))
	}
	if s := o.FilterText(); s != nil {
		p = append(p, fmt.Sprintf("filter=%q", *s))
	}
	if s := o.UpdText(); s != nil {
		p = append(p, fmt.Sprintf("upd=%q", *s))
	}
	if s := o.CondText(); s != nil {
		p = append(p, fmt.Sprintf("cond=%q", *s))
	}
	if len(o.Names) > 0 {
		ks := make([]string, 0)
		for k, v := range o.Names {
			ks = append(ks, k+"="+v)
		}
		sort.Strings(ks)
		p = append(p, "names="+strings.Join(ks, ","))
	}
	if len(o.Values) > 0 {
		ks := make([]string, 0)
		for k, v := range o.Values {
			ks = append(ks, k+"="+v.CanonText())
		}
		sort.Strings(ks)
		p = append(p, "values="+strings.Join(ks, ","))
	}
	if o.RetOnFail {
		p = append(p, "retOnFail")
	}
	if o.AllOld {
		p = append(p, "ALL_OLD")
	}
	if o.Reverse {
		p = append(p, "reverse")
	}
	if o.Limit != 0 {
		p = append(p, fmt.Sprintf("limit=%d", o.Limit))
	}
	if o.ESK != nil {
		p = append(p, "esk="+o.ESK.CanonText())
	}
	for _, r := range o.Batch {
		switch {
		case r.Both:
			p = append(p, "["+r.Table+" put+del]")
		case r.None:
			p = append(p, "["+r.Table+" empty]")
		case r.Put != nil:
			p = append(p, "["+r.Table+" put "+r.Put.CanonText()+"]")
		default:
			p = append(p, "["+r.Table+" del "+r.Del.CanonText()+"]")
		}
	}
	if o.BGKeys != nil {
		ts := make([]string, 0)
		for t, ks := range o.BGKeys {
			s := t + ":"
			for _, k := range ks {
				s += k.CanonText()
			}
			ts = append(ts, s)
		}
		sort.Strings(ts)
		p = append(p, "get{"+strings.Join(ts, ";")+"}")
	}
	if o.Fail != "" {
		p = append(p, o.Fail)
	}
	return strings.Join(p, " ")
}

// IndexDesc is a normalised index description.
type IndexDesc struct {
	Name     string `json:"name"`
	Local    bool   `json:"local"`
	Hash     string `json:"hash"`
	Range    string `json:"range,omitempty"`
	Count    int64  `json:"count"`
	HasCount bool   `json:"hasCount"`
}

// Desc is a normalised table description.
type Desc struct {
	Name    string      `json:"name"`
	Count   int64       `json:"count"`
	Hash    string      `json:"hash"`
	Range   string      `json:"range,omitempty"`
	Indexes []IndexDesc `json:"indexes"` // sorted by name
}

// Error classes (normalised). Anything else is reported as "Other:<detail>".
const (
	ECCF        = "ConditionalCheckFailedException"
	EValidation = "ValidationException"
	ENotFound   = "ResourceNotFoundException"
	EInUse      = "ResourceInUseException"
	EInternal   = "InternalServerError"
	EForced     = "ForcedFailure"
	ESyntax     = "SyntaxError"      // plain error wrapping interpreter.ErrSyntaxError
	EUnsupp     = "UnsupportedError" // plain error wrapping interpreter.ErrUnsupportedFeature
	EInvalidPar = "InvalidParameter" // SDK v1 input.Validate()
	EPanicSyn   = "PANIC(syntax)"    // documented panic carrying ErrSyntaxError
	EPanicUns   = "PANIC(unsupported)"
	EPanicRT    = "PANIC(runtime)"
	EAnyReject  = "*reject*" // model only: any error, or the documented syntax/unsupported panic
	EAnyErr     = "*error*"  // model only: any returned error (no panic)
)

// Resp is a normalised response. In a model response, Err may be EAnyReject/EAnyErr, or ErrSet
// may list several acceptable classes.
type Resp struct {
	Err    string   `json:"err,omitempty"`
	ErrSet []string `json:"errSet,omitempty"` // model: acceptable classes ("" = success)
	Msg    string   `json:"msg,omitempty"`

	Item    val.Item   `json:"item,omitempty"` // Get / Upd / Del(ALL_OLD); nil or empty = none
	Items   []val.Item `json:"items,omitempty"`
	Count   int        `json:"count,omitempty"`
	LEK     val.Item   `json:"lek,omitempty"`
	CCFItem val.Item   `json:"ccfItem,omitempty"`
	Desc    *Desc      `json:"desc,omitempty"`

	Unproc   []BWReq               `json:"unproc,omitempty"`
	BGResp   map[string][]val.Item `json:"bgResp,omitempty"`
	BGUnproc map[string][]val.Item `json:"bgUnproc,omitempty"`

	// PairDiff is set by the Product driver when the two clients' responses differ.
	PairDiff *Diff `json:"-"`

	// model-only hints for comparison
	SortAttr  string     `json:"sortAttr,omitempty"`  // Query: attribute whose sequence is compared
	AltItems  []val.Item `json:"altItems,omitempty"`  // Upd: alternative accepted result items
	NoItemCmp bool       `json:"noItemCmp,omitempty"` // do not compare Item
}

// Driver executes abstract operations.
type Driver interface {
	Name() string
	Do(op Op) Resp
	// Raw returns the underlying client (nil for the model).
	Raw() interface{}
}

// Short is a compact rendering of a response.
func (r Resp) Short() string {
	var p []string
	if r.Err != "" {
		p = append(p, "err="+r.Err)
	}
	if len(r.ErrSet) > 0 {
		p = append(p, fmt.Sprintf("errSet=%q", r.ErrSet))
	}
	if r.Item != nil {
		p = append(p, "item="+r.Item.Canon())
	}
	if r.Items != nil {
		s := make([]string, len(r.Items))
		for i, it := range r.Items {
			s[i] = it.Canon()
		}
		p = append(p, fmt.Sprintf("items(%d)=[%s]", r.Count, strings.Join(s, " ")))
	}
	if len(r.LEK) > 0 {
		p = append(p, "lek="+r.LEK.Canon())
	}
	if r.CCFItem != nil {
		p = append(p, "ccfItem="+r.CCFItem.Canon())
	}
	if r.Desc != nil {
		b, _ := json.Marshal(r.Desc)
		p = append(p, "desc="+string(b))
	}
	if len(r.Unproc) > 0 {
		p = append(p, fmt.Sprintf("unproc=%d", len(r.Unproc)))
	}
	if r.BGResp != nil {
		b, _ := json.Marshal(r.BGResp)
		p = append(p, "bgResp="+string(b))
	}
	if len(r.BGUnproc) > 0 {
		b, _ := json.Marshal(r.BGUnproc)
		p = append(p, "bgUnproc="+string(b))
	}
	if len(p) == 0 {
		return "ok"
	}
	return strings.Join(p, " ")
}
