package drv

import (
	"fmt"
	"sort"

	"github.com/aws/aws-sdk-go/aws"
	"github.com/aws/aws-sdk-go/service/dynamodb"
	v1 "github.com/truora/minidyn/aws-v1/client"
	"github.com/truora/minidyn/interpreter"

	"verif/val"
)

var v1ErrForced = v1.ErrForcedFailure

// V1 drives the aws-v1 client.
type V1 struct {
	C *v1.Client
}

// NewV1 creates a fresh client.
func NewV1() *V1 { return &V1{C: v1.NewClient()} }

func (d *V1) Name() string     { return "v1" }
func (d *V1) Raw() interface{} { return d.C }

// ToV1 converts a value to the SDK v1 representation (fresh memory).
func ToV1(v val.V) *dynamodb.AttributeValue {
	switch v.T {
	case "S":
		return &dynamodb.AttributeValue{S: aws.String(v.S)}
	case "N":
		return &dynamodb.AttributeValue{N: aws.String(v.S)}
	case "B":
		return &dynamodb.AttributeValue{B: append([]byte{}, v.B...)}
	case "BOOL":
		return &dynamodb.AttributeValue{BOOL: aws.Bool(v.Bo)}
	case "NULL":
		return &dynamodb.AttributeValue{NULL: aws.Bool(true)}
	case "L":
		l := make([]*dynamodb.AttributeValue, len(v.L))
		for i, x := range v.L {
			l[i] = ToV1(x)
		}
		return &dynamodb.AttributeValue{L: l}
	case "M":
		m := ItemToV1(v.M)
		if m == nil {
			m = map[string]*dynamodb.AttributeValue{}
		}
		return &dynamodb.AttributeValue{M: m}
	case "SS":
		return &dynamodb.AttributeValue{SS: freshStrings(v.SS)}
	case "NS":
		return &dynamodb.AttributeValue{NS: freshStrings(v.SS)}
	case "BS":
		bs := make([][]byte, len(v.BS))
		for i, b := range v.BS {
			bs[i] = append([]byte{}, b...)
		}
		return &dynamodb.AttributeValue{BS: bs}
	}
	panic("bad val type " + v.T)
}

// freshStrings returns pointers to fresh copies (aws.StringSlice points into its argument).
func freshStrings(ss []string) []*string {
	o := make([]*string, len(ss))
	for i := range ss {
		s := ss[i]
		o[i] = &s
	}
	return o
}

// ItemToV1 converts an item (nil stays nil).
func ItemToV1(it map[string]val.V) map[string]*dynamodb.AttributeValue {
	if it == nil {
		return nil
	}
	o := make(map[string]*dynamodb.AttributeValue, len(it))
	for k, v := range it {
		o[k] = ToV1(v)
	}
	return o
}

// FromV1 converts back, copying all memory. An attribute value with no member set is reported
// as type "?empty".
func FromV1(a *dynamodb.AttributeValue) val.V {
	switch {
	case a == nil:
		return val.V{T: "?nil"}
	case a.S != nil:
		return val.S(*a.S)
	case a.N != nil:
		return val.N(*a.N)
	case a.BOOL != nil:
		return val.Bool(*a.BOOL)
	case a.NULL != nil:
		if !*a.NULL {
			return val.V{T: "?NULL(false)"} // not a value DynamoDB knows
		}
		return val.Null()
	case a.B != nil:
		return val.V{T: "B", B: append([]byte{}, a.B...)}
	case a.L != nil:
		l := make([]val.V, len(a.L))
		for i, e := range a.L {
			l[i] = FromV1(e)
		}
		return val.V{T: "L", L: l}
	case a.M != nil:
		return val.V{T: "M", M: ItemFromV1(a.M)}
	case a.SS != nil:
		return val.V{T: "SS", SS: aws.StringValueSlice(a.SS)}
	case a.NS != nil:
		return val.V{T: "NS", SS: aws.StringValueSlice(a.NS)}
	case a.BS != nil:
		bs := make([][]byte, len(a.BS))
		for i, b := range a.BS {
			bs[i] = append([]byte{}, b...)
		}
		return val.V{T: "BS", BS: bs}
	}
	return val.V{T: "?empty"}
}

// ItemFromV1 converts an SDK item (nil stays nil).
func ItemFromV1(m map[string]*dynamodb.AttributeValue) val.Item {
	if m == nil {
		return nil
	}
	o := make(val.Item, len(m))
	for k, v := range m {
		o[k] = FromV1(v)
	}
	return o
}

func itemsFromV1(ms []map[string]*dynamodb.AttributeValue) []val.Item {
	o := make([]val.Item, len(ms))
	for i, m := range ms {
		o[i] = ItemFromV1(m)
	}
	return o
}

func keySchemaV1(h, r string) []*dynamodb.KeySchemaElement {
	ks := []*dynamodb.KeySchemaElement{{AttributeName: aws.String(h), KeyType: aws.String("HASH")}}
	if r != "" {
		ks = append(ks, &dynamodb.KeySchemaElement{AttributeName: aws.String(r), KeyType: aws.String("RANGE")})
	}
	return ks
}

func throughputV1(on bool) *dynamodb.ProvisionedThroughput {
	if !on {
		return nil
	}
	return &dynamodb.ProvisionedThroughput{ReadCapacityUnits: aws.Int64(5), WriteCapacityUnits: aws.Int64(5)}
}

func descFromV1(td *dynamodb.TableDescription) *Desc {
	if td == nil {
		return nil
	}
	d := &Desc{Name: aws.StringValue(td.TableName), Count: aws.Int64Value(td.ItemCount), Indexes: []IndexDesc{}}
	ks := func(in []*dynamodb.KeySchemaElement) (h, r string) {
		for _, k := range in {
			if aws.StringValue(k.KeyType) == "HASH" {
				h = aws.StringValue(k.AttributeName)
			} else {
				r = aws.StringValue(k.AttributeName)
			}
		}
		return
	}
	d.Hash, d.Range = ks(td.KeySchema)
	for _, g := range td.GlobalSecondaryIndexes {
		ix := IndexDesc{Name: aws.StringValue(g.IndexName), Count: aws.Int64Value(g.ItemCount), HasCount: g.ItemCount != nil}
		ix.Hash, ix.Range = ks(g.KeySchema)
		d.Indexes = append(d.Indexes, ix)
	}
	for _, g := range td.LocalSecondaryIndexes {
		ix := IndexDesc{Name: aws.StringValue(g.IndexName), Local: true, Count: aws.Int64Value(g.ItemCount), HasCount: g.ItemCount != nil}
		ix.Hash, ix.Range = ks(g.KeySchema)
		d.Indexes = append(d.Indexes, ix)
	}
	sort.Slice(d.Indexes, func(i, j int) bool { return d.Indexes[i].Name < d.Indexes[j].Name })
	return d
}

func namesV1(m map[string]string) map[string]*string {
	if m == nil {
		return nil
	}
	return aws.StringMap(copyNames(m))
}

// Do executes one operation.
func (d *V1) Do(op Op) Resp {
	return guard(func() Resp { return d.do(op) })
}

func (d *V1) do(op Op) Resp {
	c := d.C
	switch op.K {
	case KCreate:
		cfg := op.Cfg
		in := &dynamodb.CreateTableInput{TableName: aws.String(op.Table), KeySchema: keySchemaV1(cfg.Hash, cfg.Range)}
		for _, ad := range AttrDefs(cfg) {
			in.AttributeDefinitions = append(in.AttributeDefinitions, &dynamodb.AttributeDefinition{AttributeName: aws.String(ad[0]), AttributeType: aws.String(ad[1])})
		}
		if cfg.Billing != "" {
			in.BillingMode = aws.String(cfg.Billing)
		}
		in.ProvisionedThroughput = throughputV1(cfg.Throughput)
		for _, g := range cfg.GSI {
			in.GlobalSecondaryIndexes = append(in.GlobalSecondaryIndexes, &dynamodb.GlobalSecondaryIndex{
				IndexName: aws.String(g.Name), KeySchema: keySchemaV1(g.Hash, g.Range),
				Projection:            &dynamodb.Projection{ProjectionType: aws.String("ALL")},
				ProvisionedThroughput: throughputV1(g.Throughput),
			})
		}
		for _, g := range cfg.LSI {
			in.LocalSecondaryIndexes = append(in.LocalSecondaryIndexes, &dynamodb.LocalSecondaryIndex{
				IndexName: aws.String(g.Name), KeySchema: keySchemaV1(g.Hash, g.Range),
				Projection: &dynamodb.Projection{ProjectionType: aws.String("ALL")},
			})
		}
		out, err := c.CreateTable(in)
		if err != nil {
			return errResp(err)
		}
		return Resp{Desc: descFromV1(out.TableDescription)}
	case KAddTable:
		return errResp(v1.AddTable(c, op.Table, op.Cfg.Hash, op.Cfg.Range))
	case KDeleteTbl:
		out, err := c.DeleteTable(&dynamodb.DeleteTableInput{TableName: aws.String(op.Table)})
		if err != nil {
			return errResp(err)
		}
		return Resp{Desc: descFromV1(out.TableDescription)}
	case KDescribe:
		out, err := c.DescribeTable(&dynamodb.DescribeTableInput{TableName: aws.String(op.Table)})
		if err != nil {
			return errResp(err)
		}
		return Resp{Desc: descFromV1(out.Table)}
	case KCreateGSI:
		g := op.IdxCfg
		in := &dynamodb.UpdateTableInput{TableName: aws.String(op.Table)}
		in.AttributeDefinitions = append(in.AttributeDefinitions, &dynamodb.AttributeDefinition{AttributeName: aws.String(g.Hash), AttributeType: aws.String(g.HashT)})
		if g.Range != "" {
			in.AttributeDefinitions = append(in.AttributeDefinitions, &dynamodb.AttributeDefinition{AttributeName: aws.String(g.Range), AttributeType: aws.String(g.RangeT)})
		}
		in.GlobalSecondaryIndexUpdates = []*dynamodb.GlobalSecondaryIndexUpdate{{Create: &dynamodb.CreateGlobalSecondaryIndexAction{
			IndexName: aws.String(g.Name), KeySchema: keySchemaV1(g.Hash, g.Range),
			Projection:            &dynamodb.Projection{ProjectionType: aws.String("ALL")},
			ProvisionedThroughput: throughputV1(g.Throughput),
		}}}
		out, err := c.UpdateTable(in)
		if err != nil {
			return errResp(err)
		}
		return Resp{Desc: descFromV1(out.TableDescription)}
	case KDeleteGSI:
		in := &dynamodb.UpdateTableInput{TableName: aws.String(op.Table)}
		if op.IdxCfg != nil {
			in.AttributeDefinitions = []*dynamodb.AttributeDefinition{{AttributeName: aws.String(op.IdxCfg.Hash), AttributeType: aws.String(op.IdxCfg.HashT)}}
		}
		in.GlobalSecondaryIndexUpdates = []*dynamodb.GlobalSecondaryIndexUpdate{{Delete: &dynamodb.DeleteGlobalSecondaryIndexAction{IndexName: aws.String(op.Index)}}}
		out, err := c.UpdateTable(in)
		if err != nil {
			return errResp(err)
		}
		return Resp{Desc: descFromV1(out.TableDescription)}
	case KUpdateTbl:
		in := &dynamodb.UpdateTableInput{TableName: aws.String(op.Table)}
		for _, ch := range op.Changes {
			if g := ch.Create; g != nil {
				in.AttributeDefinitions = append(in.AttributeDefinitions, &dynamodb.AttributeDefinition{AttributeName: aws.String(g.Hash), AttributeType: aws.String(g.HashT)})
				if g.Range != "" {
					in.AttributeDefinitions = append(in.AttributeDefinitions, &dynamodb.AttributeDefinition{AttributeName: aws.String(g.Range), AttributeType: aws.String(g.RangeT)})
				}
				in.GlobalSecondaryIndexUpdates = append(in.GlobalSecondaryIndexUpdates, &dynamodb.GlobalSecondaryIndexUpdate{Create: &dynamodb.CreateGlobalSecondaryIndexAction{
					IndexName: aws.String(g.Name), KeySchema: keySchemaV1(g.Hash, g.Range),
					Projection:            &dynamodb.Projection{ProjectionType: aws.String("ALL")},
					ProvisionedThroughput: throughputV1(g.Throughput),
				}})
			} else {
				in.GlobalSecondaryIndexUpdates = append(in.GlobalSecondaryIndexUpdates, &dynamodb.GlobalSecondaryIndexUpdate{Delete: &dynamodb.DeleteGlobalSecondaryIndexAction{IndexName: aws.String(ch.Delete)}})
			}
		}
		out, err := c.UpdateTable(in)
		if err != nil {
			return errResp(err)
		}
		return Resp{Desc: descFromV1(out.TableDescription)}
	case KAddIndex:
		g := op.IdxCfg
		return errResp(v1.AddIndex(c, op.Table, g.Name, g.Hash, g.Range))
	case KClear:
		return errResp(v1.ClearTable(c, op.Table))
	case KPut:
		in := &dynamodb.PutItemInput{TableName: aws.String(op.Table), Item: ItemToV1(op.Item),
			ConditionExpression: op.CondText(), ExpressionAttributeNames: namesV1(op.Names), ExpressionAttributeValues: ItemToV1(op.Values)}
		if op.RetVals != "" {
			in.ReturnValues = aws.String(op.RetVals)
		}
		_, err := c.PutItem(in)
		return errResp(err)
	case KUpd:
		in := &dynamodb.UpdateItemInput{TableName: aws.String(op.Table), Key: ItemToV1(op.Key), UpdateExpression: op.UpdText(),
			ConditionExpression: op.CondText(), ExpressionAttributeNames: namesV1(op.Names), ExpressionAttributeValues: ItemToV1(op.Values),
			ReturnValues: aws.String("ALL_NEW")}
		out, err := c.UpdateItem(in)
		if err != nil {
			return errResp(err)
		}
		return Resp{Item: ItemFromV1(out.Attributes)}
	case KDel:
		in := &dynamodb.DeleteItemInput{TableName: aws.String(op.Table), Key: ItemToV1(op.Key),
			ConditionExpression: op.CondText(), ExpressionAttributeNames: namesV1(op.Names), ExpressionAttributeValues: ItemToV1(op.Values)}
		if op.AllOld {
			in.ReturnValues = aws.String("ALL_OLD")
		}
		if op.RetVals != "" {
			in.ReturnValues = aws.String(op.RetVals)
		}
		out, err := c.DeleteItem(in)
		if err != nil {
			return errResp(err)
		}
		return Resp{Item: ItemFromV1(out.Attributes)}
	case KGet:
		out, err := c.GetItem(&dynamodb.GetItemInput{TableName: aws.String(op.Table), Key: ItemToV1(op.Key)})
		if err != nil {
			return errResp(err)
		}
		return Resp{Item: ItemFromV1(out.Item)}
	case KQuery:
		in := &dynamodb.QueryInput{TableName: aws.String(op.Table), KeyConditionExpression: op.KeyText(), FilterExpression: op.FilterText(),
			ExpressionAttributeNames: namesV1(op.Names), ExpressionAttributeValues: ItemToV1(op.Values), ExclusiveStartKey: ItemToV1(op.ESK)}
		if op.Index != "" {
			in.IndexName = aws.String(op.Index)
		}
		if op.Reverse {
			in.ScanIndexForward = aws.Bool(false)
		}
		if op.Limit > 0 {
			in.Limit = aws.Int64(int64(op.Limit))
		}
		out, err := c.Query(in)
		if err != nil {
			return errResp(err)
		}
		return Resp{Items: itemsFromV1(out.Items), Count: int(aws.Int64Value(out.Count)), LEK: ItemFromV1(out.LastEvaluatedKey)}
	case KScan:
		in := &dynamodb.ScanInput{TableName: aws.String(op.Table), FilterExpression: op.FilterText(),
			ExpressionAttributeNames: namesV1(op.Names), ExpressionAttributeValues: ItemToV1(op.Values), ExclusiveStartKey: ItemToV1(op.ESK)}
		if op.ProjStr != nil {
			in.ProjectionExpression = aws.String(*op.ProjStr)
		}
		if op.Index != "" {
			in.IndexName = aws.String(op.Index)
		}
		if op.Limit > 0 {
			in.Limit = aws.Int64(int64(op.Limit))
		}
		out, err := c.Scan(in)
		if err != nil {
			return errResp(err)
		}
		return Resp{Items: itemsFromV1(out.Items), Count: int(aws.Int64Value(out.Count)), LEK: ItemFromV1(out.LastEvaluatedKey)}
	case KBatchWrite:
		in := &dynamodb.BatchWriteItemInput{RequestItems: map[string][]*dynamodb.WriteRequest{}}
		for _, r := range op.Batch {
			wr := &dynamodb.WriteRequest{}
			if r.Put != nil || r.Both {
				wr.PutRequest = &dynamodb.PutRequest{Item: ItemToV1(r.Put)}
			}
			if r.Del != nil || r.Both {
				wr.DeleteRequest = &dynamodb.DeleteRequest{Key: ItemToV1(r.Del)}
			}
			in.RequestItems[r.Table] = append(in.RequestItems[r.Table], wr)
		}
		out, err := c.BatchWriteItem(in)
		if err != nil {
			return errResp(err)
		}
		r := Resp{}
		for t, reqs := range out.UnprocessedItems {
			for _, q := range reqs {
				u := BWReq{Table: t}
				if q.PutRequest != nil {
					u.Put = ItemFromV1(q.PutRequest.Item)
				}
				if q.DeleteRequest != nil {
					u.Del = ItemFromV1(q.DeleteRequest.Key)
				}
				r.Unproc = append(r.Unproc, u)
			}
		}
		return r
	case KBatchGet:
		in := &dynamodb.BatchGetItemInput{RequestItems: map[string]*dynamodb.KeysAndAttributes{}}
		for t, keys := range op.BGKeys {
			ka := &dynamodb.KeysAndAttributes{}
			for _, k := range keys {
				ka.Keys = append(ka.Keys, ItemToV1(k))
			}
			in.RequestItems[t] = ka
		}
		out, err := c.BatchGetItem(in)
		if err != nil {
			return errResp(err)
		}
		r := Resp{BGResp: map[string][]val.Item{}, BGUnproc: map[string][]val.Item{}}
		for t, items := range out.Responses {
			r.BGResp[t] = itemsFromV1(items)
		}
		for t, ka := range out.UnprocessedKeys {
			r.BGUnproc[t] = itemsFromV1(ka.Keys)
		}
		return r
	case KTransact:
		_, err := c.TransactWriteItems(&dynamodb.TransactWriteItemsInput{TransactItems: []*dynamodb.TransactWriteItem{}})
		return errResp(err)
	case KActivateNative:
		c.ActivateNativeInterpreter()
		return Resp{}
	case KSetInterpreter:
		c.SetInterpreter(interpreter.NewNativeInterpreter())
		return Resp{}
	case KActivateDebug:
		c.ActivateDebug()
		return Resp{}
	case KSetICM:
		v1.SetItemCollectionMetrics(c, map[string][]*dynamodb.ItemCollectionMetrics{})
		return Resp{}
	case KFail:
		switch op.Fail {
		case "active_force":
			v1.ActiveForceFailure(c)
		case "deactive_force":
			v1.DeactiveForceFailure(c)
		default:
			v1.EmulateFailure(c, v1.FailureCondition(op.Fail))
		}
		return Resp{}
	}
	panic(fmt.Sprint("v1 driver: unknown op ", op.K))
}
