package drv

import (
	"fmt"

	"verif/val"
)

// Product drives two clients in lock-step with the same abstract operation. It returns the
// response of B and records in PairDiff how A's normalised response differs (empty if equal).
type Product struct {
	A, B Driver
}

func (p *Product) Name() string { return p.A.Name() + "+" + p.B.Name() }

// Raw returns both clients for hashing.
func (p *Product) Raw() interface{} { return []interface{}{p.A.Raw(), p.B.Raw()} }

// Do runs the operation on both clients.
func (p *Product) Do(op Op) Resp {
	ra := p.A.Do(op)
	rb := p.B.Do(op)
	if d := RespDiff(op, ra, rb); d != nil {
		rb.PairDiff = d
	}
	return rb
}

// normPairClass: the SDK v1 client-side request validation (InvalidParameter) and the service-style
// ValidationException are both "the request is invalid"; they are one class for the comparison.
func normPairClass(c string) string {
	if c == EInvalidPar {
		return EValidation
	}
	return c
}

func itemSeqEqual(a, b []val.Item) bool {
	if len(a) != len(b) {
		return false
	}
	for i := range a {
		if a[i].Canon() != b[i].Canon() {
			return false
		}
	}
	return true
}

// RespDiff compares the normalised responses of the two SDK adapters for one operation: same
// success or failure with the same error class, same items, counts, pagination keys and table
// descriptions.
func RespDiff(op Op, a, b Resp) *Diff {
	if normPairClass(a.Err) != normPairClass(b.Err) {
		return &Diff{Kind: fmt.Sprintf("%s|class|%s=%s|%s=%s", op.K, "v1", orOK(a.Err), "v2", orOK(b.Err)), Detail: a.Msg + " / " + b.Msg}
	}
	if a.Err != "" {
		if !val.ItemEqual(a.CCFItem, b.CCFItem) && !op.RetOnFail {
			return &Diff{Kind: op.K + "|ccf-item", Detail: a.CCFItem.Canon() + " / " + b.CCFItem.Canon()}
		}
		return nil
	}
	switch op.K {
	case KGet, KUpd, KDel:
		if !val.ItemEqual(a.Item, b.Item) {
			// the recorded defect of the v2 mapper (empty containers come back as NULL, C10) also
			// separates the two clients: attributed only when it accounts for the whole difference
			if a.Item != nil && b.Item != nil && val.ItemEqual(val.NullifyEmpty(a.Item), b.Item) {
				return &Diff{Kind: op.K + "|item|explained-by-empty-container-returned-as-NULL", Detail: a.Item.Canon() + " / " + b.Item.Canon()}
			}
			return &Diff{Kind: op.K + "|item", Detail: a.Item.Canon() + " / " + b.Item.Canon()}
		}
	case KQuery, KScan:
		if a.Count != b.Count {
			return &Diff{Kind: op.K + "|count", Detail: fmt.Sprintf("%d / %d", a.Count, b.Count)}
		}
		if op.K == KQuery && !itemSeqEqual(a.Items, b.Items) || op.K == KScan && !sameMultiset(a.Items, b.Items) {
			na := make([]val.Item, len(a.Items))
			for i := range a.Items {
				na[i] = val.NullifyEmpty(a.Items[i])
			}
			if op.K == KQuery && itemSeqEqual(na, b.Items) || op.K == KScan && sameMultiset(na, b.Items) {
				return &Diff{Kind: op.K + "|items|explained-by-empty-container-returned-as-NULL", Detail: fmt.Sprintf("%v / %v", multiset(a.Items), multiset(b.Items))}
			}
			return &Diff{Kind: op.K + "|items", Detail: fmt.Sprintf("%v / %v", multiset(a.Items), multiset(b.Items))}
		}
		if !val.ItemEqual(a.LEK, b.LEK) {
			return &Diff{Kind: op.K + "|last-evaluated-key", Detail: a.LEK.Canon() + " / " + b.LEK.Canon()}
		}
	case KCreate, KDeleteTbl, KDescribe, KCreateGSI, KDeleteGSI, KUpdateTbl:
		if (a.Desc == nil) != (b.Desc == nil) {
			return &Diff{Kind: op.K + "|desc-presence", Detail: ""}
		}
		if a.Desc != nil {
			// compare through the model comparer in both directions
			if d := CompareDesc(op, a.Desc, b.Desc); d != nil {
				return d
			}
			if d := CompareDesc(op, b.Desc, a.Desc); d != nil {
				return d
			}
		}
	case KBatchWrite:
		x, y := bwCanon(a.Unproc), bwCanon(b.Unproc)
		if fmt.Sprint(x) != fmt.Sprint(y) {
			return &Diff{Kind: op.K + "|unprocessed", Detail: fmt.Sprintf("%v / %v", x, y)}
		}
	case KBatchGet:
		for t, items := range a.BGResp {
			if !sameMultiset(items, b.BGResp[t]) {
				return &Diff{Kind: op.K + "|responses", Detail: t}
			}
		}
		for t, ks := range a.BGUnproc {
			if !sameMultiset(ks, b.BGUnproc[t]) {
				return &Diff{Kind: op.K + "|unprocessed-keys", Detail: t}
			}
		}
	}
	return nil
}
