package drv

import (
	"strings"

	"verif/val"
)

// Multi routes operations to several independent clients: a table name "c2:t" addresses table
// "t" of the second client. The reference model sees one catalogue with distinct names, so any
// state shared between the real clients shows up as a divergence.
type Multi struct {
	Cs []Driver
}

func (m *Multi) Name() string { return m.Cs[0].Name() + "x" + string(rune('0'+len(m.Cs))) }

// Raw returns the underlying clients for hashing.
func (m *Multi) Raw() interface{} {
	o := make([]interface{}, len(m.Cs))
	for i, c := range m.Cs {
		o[i] = c.Raw()
	}
	return o
}

func splitClient(table string) (int, string) {
	if strings.HasPrefix(table, "c2:") {
		return 1, table[3:]
	}
	return 0, table
}

// Do routes by the table name (batch operations by their first table; the failure switch with
// Table "c2:" goes to the second client).
func (m *Multi) Do(op Op) Resp {
	ci, t := splitClient(op.Table)
	if op.K == KFail && op.Table == "c2:" {
		ci, t = 1, ""
	}
	o := op
	o.Table = t
	prefix := ""
	if ci == 1 {
		prefix = "c2:"
	}
	if len(op.Batch) > 0 {
		ci, _ = splitClient(op.Batch[0].Table)
		o.Batch = make([]BWReq, len(op.Batch))
		for i, r := range op.Batch {
			_, r.Table = splitClient(r.Table)
			o.Batch[i] = r
		}
	}
	if op.BGKeys != nil {
		o.BGKeys = map[string][]val.Item{}
		for tn, ks := range op.BGKeys {
			var bare string
			ci, bare = splitClient(tn)
			o.BGKeys[bare] = ks
		}
	}
	if ci == 1 {
		prefix = "c2:"
	}
	r := m.Cs[ci].Do(o)
	if r.Desc != nil && prefix != "" {
		d := *r.Desc
		d.Name = prefix + d.Name
		r.Desc = &d
	}
	if prefix != "" {
		for i := range r.Unproc {
			r.Unproc[i].Table = prefix + r.Unproc[i].Table
		}
		if r.BGResp != nil {
			n := map[string][]val.Item{}
			for t, v := range r.BGResp {
				n[prefix+t] = v
			}
			r.BGResp = n
		}
		if r.BGUnproc != nil {
			n := map[string][]val.Item{}
			for t, v := range r.BGUnproc {
				n[prefix+t] = v
			}
			r.BGUnproc = n
		}
	}
	return r
}
