// Package val is the SDK-neutral attribute-value tree used by the reference model, the
// drivers and every check. Numbers keep their text and are compared as exact decimals.
package val

import (
	"bytes"
	"fmt"
	"sort"
	"strings"
)

// V is one DynamoDB attribute value. T is one of S N B BOOL NULL L M SS NS BS.
type V struct {
	T  string       `json:"t"`
	S  string       `json:"s,omitempty"` // text of S and N
	B  []byte       `json:"b,omitempty"`
	Bo bool         `json:"bo,omitempty"`
	L  []V          `json:"l,omitempty"`
	M  map[string]V `json:"m,omitempty"`
	SS []string     `json:"ss,omitempty"` // members of SS and NS
	BS [][]byte     `json:"bs,omitempty"`
}

// Item is an attribute map.
type Item map[string]V

func S(s string) V      { return V{T: "S", S: s} }
func N(s string) V      { return V{T: "N", S: s} }
func B(b ...byte) V     { return V{T: "B", B: append([]byte{}, b...)} }
func Bool(b bool) V     { return V{T: "BOOL", Bo: b} }
func Null() V           { return V{T: "NULL"} }
func L(vs ...V) V       { return V{T: "L", L: append([]V{}, vs...)} }
func SS(ms ...string) V { return V{T: "SS", SS: append([]string{}, ms...)} }
func NS(ms ...string) V { return V{T: "NS", SS: append([]string{}, ms...)} }
func BS(ms ...[]byte) V { return V{T: "BS", BS: append([][]byte{}, ms...)} }
func M(kv ...interface{}) V {
	m := map[string]V{}
	for i := 0; i+1 < len(kv); i += 2 {
		m[kv[i].(string)] = kv[i+1].(V)
	}
	return V{T: "M", M: m}
}

// Types lists the ten DynamoDB types.
var Types = []string{"S", "N", "B", "BOOL", "NULL", "L", "M", "SS", "NS", "BS"}

// Clone returns a deep copy.
func (v V) Clone() V {
	o := v
	if v.B != nil {
		o.B = append([]byte{}, v.B...)
	}
	if v.L != nil {
		o.L = make([]V, len(v.L))
		for i := range v.L {
			o.L[i] = v.L[i].Clone()
		}
	}
	if v.M != nil {
		o.M = make(map[string]V, len(v.M))
		for k, x := range v.M {
			o.M[k] = x.Clone()
		}
	}
	if v.SS != nil {
		o.SS = append([]string{}, v.SS...)
	}
	if v.BS != nil {
		o.BS = make([][]byte, len(v.BS))
		for i := range v.BS {
			o.BS[i] = append([]byte{}, v.BS[i]...)
		}
	}
	return o
}

// Clone returns a deep copy of the item (nil stays nil).
func (it Item) Clone() Item {
	if it == nil {
		return nil
	}
	o := make(Item, len(it))
	for k, v := range it {
		o[k] = v.Clone()
	}
	return o
}

// Canon renders the value canonically: sets sorted, map keys sorted, numbers by exact value.
func (v V) Canon() string {
	var sb strings.Builder
	v.canon(&sb, true)
	return sb.String()
}

// CanonText is Canon but numbers keep their literal text.
func (v V) CanonText() string {
	var sb strings.Builder
	v.canon(&sb, false)
	return sb.String()
}

func numCanon(s string, byValue bool) string {
	if !byValue {
		return s
	}
	d, err := ParseDec(s)
	if err != nil {
		return "!" + s
	}
	return d.String()
}

func (v V) canon(sb *strings.Builder, byValue bool) {
	switch v.T {
	case "S":
		fmt.Fprintf(sb, "S%q", v.S)
	case "N":
		sb.WriteString("N(" + numCanon(v.S, byValue) + ")")
	case "B":
		fmt.Fprintf(sb, "B%x.", v.B)
	case "BOOL":
		fmt.Fprintf(sb, "BOOL(%v)", v.Bo)
	case "NULL":
		sb.WriteString("NULL")
	case "L":
		sb.WriteString("L[")
		for i, x := range v.L {
			if i > 0 {
				sb.WriteString(",")
			}
			x.canon(sb, byValue)
		}
		sb.WriteString("]")
	case "M":
		sb.WriteString("M{")
		keys := make([]string, 0, len(v.M))
		for k := range v.M {
			keys = append(keys, k)
		}
		sort.Strings(keys)
		for i, k := range keys {
			if i > 0 {
				sb.WriteString(",")
			}
			fmt.Fprintf(sb, "%q:", k)
			v.M[k].canon(sb, byValue)
		}
		sb.WriteString("}")
	case "SS":
		ms := append([]string{}, v.SS...)
		sort.Strings(ms)
		ms = uniq(ms)
		fmt.Fprintf(sb, "SS%q", ms)
	case "NS":
		ms := make([]string, len(v.SS))
		for i, m := range v.SS {
			ms[i] = numCanon(m, byValue)
		}
		sort.Strings(ms)
		ms = uniq(ms)
		fmt.Fprintf(sb, "NS%q", ms)
	case "BS":
		ms := make([]string, len(v.BS))
		for i, m := range v.BS {
			ms[i] = fmt.Sprintf("%x.", m)
		}
		sort.Strings(ms)
		ms = uniq(ms)
		fmt.Fprintf(sb, "BS%q", ms)
	default:
		fmt.Fprintf(sb, "?%s?", v.T)
	}
}

func uniq(s []string) []string {
	o := s[:0]
	for i, x := range s {
		if i == 0 || x != s[i-1] {
			o = append(o, x)
		}
	}
	return o
}

// Equal is DynamoDB structural equality: type-sensitive, sets as sets, numbers by value.
func Equal(a, b V) bool { return a.Canon() == b.Canon() }

// Canon renders an item canonically; a nil item renders as "<nil>", an empty one as "{}".
func (it Item) Canon() string {
	if it == nil {
		return "<nil>"
	}
	return V{T: "M", M: it}.Canon()[1:]
}

// CanonText is Canon with literal number text.
func (it Item) CanonText() string {
	if it == nil {
		return "<nil>"
	}
	return V{T: "M", M: it}.CanonText()[1:]
}

// ItemEqual compares two items structurally (nil and empty are equal).
func ItemEqual(a, b Item) bool {
	if len(a) == 0 && len(b) == 0 {
		return true
	}
	return a.Canon() == b.Canon()
}

// Compare orders two values of the same orderable type (S bytes, N value, B bytes).
// ok is false if the types differ or are not orderable.
func Compare(a, b V) (int, bool) {
	if a.T != b.T {
		return 0, false
	}
	switch a.T {
	case "S":
		return strings.Compare(a.S, b.S), true
	case "B":
		return bytes.Compare(a.B, b.B), true
	case "N":
		x, e1 := ParseDec(a.S)
		y, e2 := ParseDec(b.S)
		if e1 != nil || e2 != nil {
			return 0, false
		}
		return x.Cmp(y), true
	}
	return 0, false
}

// KeyString is an injective, type-tagged rendering of a key value (numbers by value).
func KeyString(v V) string { return v.Canon() }
