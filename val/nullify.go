package val

// NullifyEmpty is the defect model "empty B, L, M and sets come back as NULL" (SDK v2 mapper).
func NullifyEmpty(it Item) Item {
	o := Item{}
	for k, v := range it {
		o[k] = nullifyEmptyV(v)
	}
	return o
}

func nullifyEmptyV(v V) V {
	switch v.T {
	case "B":
		if len(v.B) == 0 {
			return Null()
		}
	case "SS", "NS":
		if len(v.SS) == 0 {
			return Null()
		}
	case "BS":
		if len(v.BS) == 0 {
			return Null()
		}
	case "L":
		if len(v.L) == 0 {
			return Null()
		}
		o := V{T: "L", L: make([]V, len(v.L))}
		for i, x := range v.L {
			o.L[i] = nullifyEmptyV(x)
		}
		return o
	case "M":
		if len(v.M) == 0 {
			return Null()
		}
		o := V{T: "M", M: map[string]V{}}
		for k, x := range v.M {
			o.M[k] = nullifyEmptyV(x)
		}
		return o
	}
	return v
}
