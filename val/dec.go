package val

import (
	"fmt"
	"math/big"
	"strings"
)

// Dec is an exact decimal: M × 10^E, normalised (M has no trailing decimal zeros; zero is 0e0).
type Dec struct {
	M *big.Int
	E int
}

var ten = big.NewInt(10)

// ParseDec parses a DynamoDB numeral: optional sign, digits with optional fraction, optional
// exponent. Leading zeros, trailing zeros, "-0" and exponent form are all accepted.
func ParseDec(s string) (Dec, error) {
	orig := s
	if s == "" {
		return Dec{}, fmt.Errorf("empty numeral")
	}
	neg := false
	if s[0] == '+' || s[0] == '-' {
		neg = s[0] == '-'
		s = s[1:]
	}
	exp := 0
	if i := strings.IndexAny(s, "eE"); i >= 0 {
		es := s[i+1:]
		s = s[:i]
		if es == "" {
			return Dec{}, fmt.Errorf("bad numeral %q", orig)
		}
		sign := 1
		if es[0] == '+' || es[0] == '-' {
			if es[0] == '-' {
				sign = -1
			}
			es = es[1:]
		}
		if es == "" || len(es) > 6 {
			return Dec{}, fmt.Errorf("bad numeral %q", orig)
		}
		for _, c := range es {
			if c < '0' || c > '9' {
				return Dec{}, fmt.Errorf("bad numeral %q", orig)
			}
			exp = exp*10 + int(c-'0')
		}
		exp *= sign
	}
	intp, frac := s, ""
	if i := strings.IndexByte(s, '.'); i >= 0 {
		intp, frac = s[:i], s[i+1:]
	}
	if intp == "" && frac == "" {
		return Dec{}, fmt.Errorf("bad numeral %q", orig)
	}
	digits := intp + frac
	for _, c := range digits {
		if c < '0' || c > '9' {
			return Dec{}, fmt.Errorf("bad numeral %q", orig)
		}
	}
	m := new(big.Int)
	m.SetString(digits, 10)
	if neg {
		m.Neg(m)
	}
	return Dec{M: m, E: exp - len(frac)}.norm(), nil
}

// MustDec parses or panics.
func MustDec(s string) Dec {
	d, err := ParseDec(s)
	if err != nil {
		panic(err)
	}
	return d
}

func (d Dec) norm() Dec {
	if d.M.Sign() == 0 {
		return Dec{M: new(big.Int), E: 0}
	}
	m := new(big.Int).Set(d.M)
	e := d.E
	q, r := new(big.Int), new(big.Int)
	for {
		q.QuoRem(m, ten, r)
		if r.Sign() != 0 {
			break
		}
		m.Set(q)
		e++
	}
	return Dec{M: m, E: e}
}

func pow10(n int) *big.Int { return new(big.Int).Exp(ten, big.NewInt(int64(n)), nil) }

func align(a, b Dec) (*big.Int, *big.Int, int) {
	e := a.E
	if b.E < e {
		e = b.E
	}
	x := new(big.Int).Mul(a.M, pow10(a.E-e))
	y := new(big.Int).Mul(b.M, pow10(b.E-e))
	return x, y, e
}

// Cmp compares by value.
func (d Dec) Cmp(o Dec) int {
	x, y, _ := align(d, o)
	return x.Cmp(y)
}

// Add returns the exact sum.
func (d Dec) Add(o Dec) Dec {
	x, y, e := align(d, o)
	return Dec{M: x.Add(x, y), E: e}.norm()
}

// Sub returns the exact difference.
func (d Dec) Sub(o Dec) Dec {
	x, y, e := align(d, o)
	return Dec{M: x.Sub(x, y), E: e}.norm()
}

// Digits returns the number of significant digits.
func (d Dec) Digits() int {
	if d.M.Sign() == 0 {
		return 1
	}
	return len(new(big.Int).Abs(d.M).String())
}

// String is the canonical form "<mantissa>e<exp>".
func (d Dec) String() string { return fmt.Sprintf("%se%d", d.M.String(), d.E) }

// Plain renders without exponent (what a caller would write).
func (d Dec) Plain() string {
	s := new(big.Int).Abs(d.M).String()
	neg := d.M.Sign() < 0
	switch {
	case d.E >= 0:
		s += strings.Repeat("0", d.E)
	case -d.E < len(s):
		s = s[:len(s)+d.E] + "." + s[len(s)+d.E:]
	default:
		s = "0." + strings.Repeat("0", -d.E-len(s)) + s
	}
	if neg {
		s = "-" + s
	}
	return s
}

// NumEqual reports whether two numerals denote the same value.
func NumEqual(a, b string) bool {
	x, e1 := ParseDec(a)
	y, e2 := ParseDec(b)
	return e1 == nil && e2 == nil && x.Cmp(y) == 0
}
