// Package model is the boring reference model of DynamoDB-as-described-by-the-properties:
// a catalogue of tables, each a map from key value to item, with secondary indexes as sparse
// views computed on demand.
package model

import (
	"fmt"
	"sort"
	"strings"

	"verif/drv"
	"verif/rx"
	"verif/val"
)

// Table is the model of one table.
type Table struct {
	Name     string
	Cfg      drv.TableCfg
	AttrDefs map[string]string
	Indexes  map[string]drv.IndexCfg
	Items    map[string]val.Item // keyed by canonical key string
}

// Model is the reference model of one client.
type Model struct {
	Tables map[string]*Table
	Fail   string // "", "internal_server", "deprecated"
	// V1Quirks: the SDK-v1 request validation (table names shorter than 3 characters are
	// rejected by input.Validate()).
	Label string
}

// New returns an empty model.
func New() *Model { return &Model{Tables: map[string]*Table{}, Label: "model"} }

func (m *Model) Name() string     { return m.Label }
func (m *Model) Raw() interface{} { return nil }

// Clone deep-copies the model.
func (m *Model) Clone() *Model {
	o := &Model{Tables: map[string]*Table{}, Fail: m.Fail, Label: m.Label}
	for n, t := range m.Tables {
		nt := &Table{Name: t.Name, Cfg: t.Cfg, AttrDefs: map[string]string{}, Indexes: map[string]drv.IndexCfg{}, Items: map[string]val.Item{}}
		for k, v := range t.AttrDefs {
			nt.AttrDefs[k] = v
		}
		for k, v := range t.Indexes {
			nt.Indexes[k] = v
		}
		for k, v := range t.Items {
			nt.Items[k] = v.Clone()
		}
		o.Tables[n] = nt
	}
	return o
}

// Canon renders the complete model state canonically.
func (m *Model) Canon() string {
	var sb strings.Builder
	sb.WriteString("fail=" + m.Fail + ";")
	names := make([]string, 0, len(m.Tables))
	for n := range m.Tables {
		names = append(names, n)
	}
	sort.Strings(names)
	for _, n := range names {
		t := m.Tables[n]
		fmt.Fprintf(&sb, "T %s h=%s r=%s ", n, t.Cfg.Hash, t.Cfg.Range)
		ads := make([]string, 0)
		for k, v := range t.AttrDefs {
			ads = append(ads, k+":"+v)
		}
		sort.Strings(ads)
		sb.WriteString(strings.Join(ads, ",") + " ")
		ixs := make([]string, 0)
		for k, v := range t.Indexes {
			ixs = append(ixs, fmt.Sprintf("%s(%s,%s,%v)", k, v.Hash, v.Range, v.Local))
		}
		sort.Strings(ixs)
		sb.WriteString(strings.Join(ixs, ",") + " ")
		keys := make([]string, 0, len(t.Items))
		for k := range t.Items {
			keys = append(keys, k)
		}
		sort.Strings(keys)
		for _, k := range keys {
			sb.WriteString(t.Items[k].CanonText() + ";")
		}
		sb.WriteString("|")
	}
	return sb.String()
}

func reject(classes ...string) drv.Resp {
	if len(classes) == 1 {
		return drv.Resp{Err: classes[0]}
	}
	return drv.Resp{ErrSet: classes}
}

// keyOf extracts and validates the primary key of a table from an attribute map. strict means
// extra attributes are not allowed (not enforced: the property does not demand it).
func (t *Table) keyOf(attrs val.Item) (string, val.Item, bool) {
	k := val.Item{}
	h, ok := attrs[t.Cfg.Hash]
	if !ok || h.T != t.Cfg.HashT {
		return "", nil, false
	}
	k[t.Cfg.Hash] = h
	s := val.KeyString(h)
	if t.Cfg.Range != "" {
		r, ok := attrs[t.Cfg.Range]
		if !ok || r.T != t.Cfg.RangeT {
			return "", nil, false
		}
		k[t.Cfg.Range] = r
		s += "|" + val.KeyString(r)
	}
	return s, k, true
}

// indexTypeOK checks that every index key attribute present in the item has the declared type.
func (t *Table) indexTypeOK(item val.Item) bool {
	for _, ix := range t.Indexes {
		if v, ok := item[ix.Hash]; ok && v.T != t.AttrDefs[ix.Hash] {
			return false
		}
		if ix.Range != "" {
			if v, ok := item[ix.Range]; ok && v.T != t.AttrDefs[ix.Range] {
				return false
			}
		}
	}
	return true
}

// InIndex reports whether the item belongs to the (sparse) index.
func InIndex(ix drv.IndexCfg, item val.Item) bool {
	h, ok := item[ix.Hash]
	if !ok || ix.HashT != "" && h.T != ix.HashT {
		// (an item whose attribute has another type than the index key can only predate the
		// index: writes of such items are rejected; it is not part of the index)
		return false
	}
	if ix.Range != "" {
		r, ok := item[ix.Range]
		if !ok || ix.RangeT != "" && r.T != ix.RangeT {
			return false
		}
	}
	return true
}

// IndexItems returns the items visible through an index ("" = base table).
func (t *Table) IndexItems(index string) []val.Item {
	out := []val.Item{}
	keys := make([]string, 0, len(t.Items))
	for k := range t.Items {
		keys = append(keys, k)
	}
	sort.Strings(keys)
	for _, k := range keys {
		it := t.Items[k]
		if index != "" && !InIndex(t.Indexes[index], it) {
			continue
		}
		out = append(out, it.Clone())
	}
	return out
}

func (t *Table) desc() *drv.Desc {
	d := &drv.Desc{Name: t.Name, Count: int64(len(t.Items)), Hash: t.Cfg.Hash, Range: t.Cfg.Range, Indexes: []drv.IndexDesc{}}
	for n, ix := range t.Indexes {
		d.Indexes = append(d.Indexes, drv.IndexDesc{Name: n, Local: ix.Local, Hash: ix.Hash, Range: ix.Range, Count: int64(len(t.IndexItems(n))), HasCount: true})
	}
	sort.Slice(d.Indexes, func(i, j int) bool { return d.Indexes[i].Name < d.Indexes[j].Name })
	return d
}

func condMask(c *rx.Cond, item val.Item, op drv.Op) int {
	if item == nil {
		item = val.Item{}
	}
	return c.Eval(rx.Env{Item: item, Names: op.Names, Values: op.Values})
}

// placeholdersOK implements the C16 rule for supplied vs used placeholders on AST-built
// requests: every supplied one is used, every used one is supplied.
func placeholdersOK(op drv.Op) bool {
	names, values := map[string]bool{}, map[string]bool{}
	op.Cond.Placeholders(names, values)
	op.Upd.Placeholders(names, values)
	op.KeyCond.Placeholders(names, values)
	op.Filter.Placeholders(names, values)
	for n := range op.Names {
		if !names[n] {
			return false
		}
	}
	for n := range names {
		if _, ok := op.Names[n]; !ok {
			return false
		}
	}
	for n := range op.Values {
		if !values[n] {
			return false
		}
	}
	for n := range values {
		if _, ok := op.Values[n]; !ok {
			return false
		}
	}
	return true
}

func hasRaw(op drv.Op) bool {
	return op.CondStr != nil || op.UpdStr != nil || op.KeyStr != nil || op.FiltStr != nil
}

func dataOp(k string) bool {
	switch k {
	case drv.KPut, drv.KUpd, drv.KDel, drv.KGet, drv.KQuery, drv.KScan, drv.KBatchWrite, drv.KBatchGet, drv.KTransact:
		return true
	}
	return false
}

func (m *Model) failErr() string {
	switch m.Fail {
	case "internal_server":
		return drv.EInternal
	case "deprecated":
		return drv.EForced
	}
	return ""
}

// Do executes the operation on the model and returns the expected response.
func (m *Model) Do(op drv.Op) drv.Resp {
	if dataOp(op.K) && m.Fail != "" && op.K != drv.KBatchWrite {
		return drv.Resp{Err: m.failErr()}
	}
	switch op.K {
	case drv.KCreate, drv.KAddTable:
		if _, ok := m.Tables[op.Table]; ok {
			return reject(drv.EInUse)
		}
		cfg := *op.Cfg
		if op.K == drv.KAddTable {
			cfg = drv.TableCfg{Hash: op.Cfg.Hash, HashT: "S", Range: op.Cfg.Range, Billing: "PAY_PER_REQUEST", Throughput: true}
			if cfg.Range != "" {
				cfg.RangeT = "S"
			}
		}
		if cfg.Billing != "PAY_PER_REQUEST" {
			if !cfg.Throughput {
				return reject(drv.EAnyErr)
			}
			for _, g := range cfg.GSI {
				if !g.Throughput {
					return reject(drv.EAnyErr)
				}
			}
		}
		t := &Table{Name: op.Table, Cfg: cfg, AttrDefs: map[string]string{}, Indexes: map[string]drv.IndexCfg{}, Items: map[string]val.Item{}}
		for _, ad := range drv.AttrDefs(&cfg) {
			t.AttrDefs[ad[0]] = ad[1]
		}
		for _, g := range cfg.GSI {
			t.Indexes[g.Name] = g
		}
		for _, g := range cfg.LSI {
			g.Local = true
			t.Indexes[g.Name] = g
		}
		m.Tables[op.Table] = t
		if op.K == drv.KAddTable {
			return drv.Resp{}
		}
		return drv.Resp{Desc: t.desc()}
	case drv.KDeleteTbl:
		t, ok := m.Tables[op.Table]
		if !ok {
			return reject(drv.ENotFound)
		}
		d := t.desc()
		delete(m.Tables, op.Table)
		return drv.Resp{Desc: d}
	case drv.KDescribe:
		t, ok := m.Tables[op.Table]
		if !ok {
			return reject(drv.ENotFound)
		}
		return drv.Resp{Desc: t.desc()}
	case drv.KCreateGSI, drv.KAddIndex:
		t, ok := m.Tables[op.Table]
		if !ok {
			return reject(drv.ENotFound)
		}
		g := *op.IdxCfg
		if op.K == drv.KAddIndex {
			g.HashT = "S"
			if g.Range != "" {
				g.RangeT = "S"
			}
		}
		if op.K == drv.KCreateGSI && t.Cfg.Billing != "PAY_PER_REQUEST" && !g.Throughput {
			return reject(drv.EAnyErr)
		}
		t.AttrDefs[g.Hash] = g.HashT
		if g.Range != "" {
			t.AttrDefs[g.Range] = g.RangeT
		}
		t.Indexes[g.Name] = g
		if op.K == drv.KAddIndex {
			return drv.Resp{}
		}
		return drv.Resp{Desc: t.desc()}
	case drv.KUpdateTbl:
		// all the changes or none: the request is applied to a copy first
		if _, ok := m.Tables[op.Table]; !ok {
			return reject(drv.ENotFound)
		}
		trial := m.Clone()
		var last drv.Resp
		for _, ch := range op.Changes {
			sub := drv.Op{K: drv.KDeleteGSI, Table: op.Table, Index: ch.Delete}
			if ch.Create != nil {
				sub = drv.Op{K: drv.KCreateGSI, Table: op.Table, IdxCfg: ch.Create}
			}
			last = trial.Do(sub)
			if len(last.ErrSet) > 0 || last.Err != "" {
				return last
			}
		}
		m.Tables = trial.Tables
		return last
	case drv.KDeleteGSI:
		t, ok := m.Tables[op.Table]
		if !ok {
			return reject(drv.ENotFound)
		}
		if _, ok := t.Indexes[op.Index]; !ok {
			return reject(drv.ENotFound)
		}
		delete(t.Indexes, op.Index)
		if op.IdxCfg != nil {
			t.AttrDefs[op.IdxCfg.Hash] = op.IdxCfg.HashT
		}
		return drv.Resp{Desc: t.desc()}
	case drv.KClear:
		t, ok := m.Tables[op.Table]
		if !ok {
			return reject(drv.ENotFound)
		}
		t.Items = map[string]val.Item{}
		return drv.Resp{}
	case drv.KFail:
		switch op.Fail {
		case "internal_server":
			m.Fail = "internal_server"
		case "deprecated", "active_force":
			m.Fail = "deprecated"
		default:
			m.Fail = ""
		}
		return drv.Resp{}
	case drv.KTransact:
		return drv.Resp{}
	case drv.KPut:
		return m.put(op)
	case drv.KUpd:
		return m.upd(op)
	case drv.KDel:
		return m.del(op)
	case drv.KGet:
		t, ok := m.Tables[op.Table]
		if !ok {
			return reject(drv.ENotFound)
		}
		ks, _, ok := t.keyOf(op.Key)
		if !ok {
			return reject(drv.EValidation)
		}
		return drv.Resp{Item: t.Items[ks].Clone()}
	case drv.KQuery, drv.KScan:
		return m.search(op)
	case drv.KBatchWrite:
		return m.batchWrite(op)
	case drv.KBatchGet:
		r := drv.Resp{BGResp: map[string][]val.Item{}, BGUnproc: map[string][]val.Item{}}
		for tn, keys := range op.BGKeys {
			t, ok := m.Tables[tn]
			if !ok {
				return reject(drv.ENotFound)
			}
			r.BGResp[tn] = []val.Item{}
			for _, k := range keys {
				ks, _, ok := t.keyOf(k)
				if !ok {
					return reject(drv.EValidation) // a key lacking a key attribute or carrying a wrong type (C13)
				}
				if it, ok := t.Items[ks]; ok {
					r.BGResp[tn] = append(r.BGResp[tn], it.Clone())
				}
			}
		}
		return r
	}
	panic("model: unknown op " + op.K)
}

// preWrite performs the checks common to the three writes; it returns the table, key string and
// a non-empty response when the request is rejected.
func (m *Model) preWrite(op drv.Op, keyAttrs val.Item) (*Table, string, val.Item, *drv.Resp) {
	if hasRaw(op) {
		r := reject(drv.EAnyReject)
		return nil, "", nil, &r
	}
	if !placeholdersOK(op) {
		r := reject(drv.EAnyReject)
		return nil, "", nil, &r
	}
	t, ok := m.Tables[op.Table]
	if !ok {
		r := reject(drv.ENotFound)
		return nil, "", nil, &r
	}
	ks, key, ok := t.keyOf(keyAttrs)
	if !ok {
		r := reject(drv.EValidation)
		return nil, "", nil, &r
	}
	return t, ks, key, nil
}

// condCheck evaluates the write condition on the stored item; returns nil to proceed.
func condCheck(op drv.Op, stored val.Item) *drv.Resp {
	if op.Cond == nil {
		return nil
	}
	mask := condMask(op.Cond, stored, op)
	ccf := func() drv.Resp {
		r := drv.Resp{Err: drv.ECCF}
		if op.RetOnFail {
			r.CCFItem = stored.Clone()
			if r.CCFItem == nil {
				r.CCFItem = val.Item{}
			}
		}
		return r
	}
	switch mask {
	case rx.T:
		return nil
	case rx.F:
		r := ccf()
		return &r
	case rx.E:
		r := reject(drv.EAnyReject)
		return &r
	case rx.F | rx.E:
		// refused either way; which of the two classes is not demanded
		r := drv.Resp{ErrSet: []string{drv.ECCF, drv.EAnyReject}}
		return &r
	}
	// acceptance set containing T and something else: the model cannot tell whether the write
	// happens; alphabets of E1 checks avoid such conditions
	panic("model: ambiguous write condition " + op.Cond.String() + " " + rx.MaskString(mask))
}

// retValsOK: PutItem and DeleteItem accept ReturnValues NONE and ALL_OLD only.
func retValsOK(op drv.Op) bool {
	return op.RetVals == "" || op.RetVals == "NONE" || op.RetVals == "ALL_OLD"
}

func (m *Model) put(op drv.Op) drv.Resp {
	t, ks, _, rej := m.preWrite(op, op.Item)
	if rej != nil {
		return *rej
	}
	if !retValsOK(op) {
		return reject(drv.EAnyErr)
	}
	if r := condCheck(op, t.Items[ks]); r != nil {
		return *r
	}
	if !t.indexTypeOK(op.Item) {
		return reject(drv.EValidation)
	}
	t.Items[ks] = op.Item.Clone()
	return drv.Resp{NoItemCmp: true}
}

func (m *Model) del(op drv.Op) drv.Resp {
	t, ks, _, rej := m.preWrite(op, op.Key)
	if rej != nil {
		return *rej
	}
	if !retValsOK(op) {
		return reject(drv.EAnyErr)
	}
	old := t.Items[ks]
	if r := condCheck(op, old); r != nil {
		return *r
	}
	delete(t.Items, ks)
	if op.AllOld {
		return drv.Resp{Item: old}
	}
	return drv.Resp{}
}

func (m *Model) upd(op drv.Op) drv.Resp {
	t, ks, key, rej := m.preWrite(op, op.Key)
	if rej != nil {
		return *rej
	}
	stored, exists := t.Items[ks]
	if r := condCheck(op, stored); r != nil {
		return *r
	}
	base := stored
	if !exists {
		base = key.Clone()
	}
	if op.Upd == nil {
		return reject(drv.EAnyReject)
	}
	outs, ok := op.Upd.Apply(base, op.Names, op.Values)
	if !ok {
		return reject(drv.EAnyReject)
	}
	// the update must not change the key, and index key attributes must keep their types
	var good []val.Item
	for _, o := range outs {
		nks, _, ok := t.keyOf(o)
		if !ok || nks != ks {
			return reject(drv.EAnyReject)
		}
		if !t.indexTypeOK(o) {
			return reject(drv.EAnyReject)
		}
		good = append(good, o)
	}
	t.Items[ks] = good[0].Clone()
	r := drv.Resp{Item: good[0].Clone()}
	if len(good) > 1 {
		r.AltItems = good[1:]
	}
	return r
}

// SettleAlt lets the harness tell the model which accepted alternative the implementation
// chose (after Upd with AltItems).
func (m *Model) SettleAlt(op drv.Op, chosen val.Item) {
	t := m.Tables[op.Table]
	ks, _, _ := t.keyOf(op.Key)
	t.Items[ks] = chosen.Clone()
}

func (m *Model) search(op drv.Op) drv.Resp {
	if hasRaw(op) || !placeholdersOK(op) {
		return reject(drv.EAnyReject)
	}
	if op.K == drv.KQuery && op.KeyCond == nil {
		return reject(drv.EAnyReject) // a Query needs a key condition
	}
	t, ok := m.Tables[op.Table]
	if !ok {
		return reject(drv.ENotFound)
	}
	h, r := t.Cfg.Hash, t.Cfg.Range
	if op.Index != "" {
		ix, ok := t.Indexes[op.Index]
		if !ok {
			return reject(drv.EAnyReject)
		}
		h, r = ix.Hash, ix.Range
	}
	_ = h
	items := t.IndexItems(op.Index)
	var out []val.Item
	for _, it := range items {
		if op.K == drv.KQuery {
			km := condMask(op.KeyCond, it, op)
			if km == rx.E {
				return reject(drv.EAnyReject)
			}
			if km != rx.T && km != rx.F {
				return drv.Resp{ErrSet: []string{"", drv.EAnyReject}, NoItemCmp: true}
			}
			if km == rx.F {
				continue
			}
		}
		if op.Filter != nil {
			fm := condMask(op.Filter, it, op)
			if fm == rx.E {
				return reject(drv.EAnyReject)
			}
			if fm != rx.T && fm != rx.F {
				return drv.Resp{ErrSet: []string{"", drv.EAnyReject}, NoItemCmp: true}
			}
			if fm == rx.F {
				continue
			}
		}
		out = append(out, it)
	}
	resp := drv.Resp{}
	if op.K == drv.KQuery {
		resp.SortAttr = r
		if r != "" {
			sort.SliceStable(out, func(i, j int) bool {
				c, _ := val.Compare(out[i][r], out[j][r])
				return c < 0
			})
		}
		if op.Reverse {
			for i, j := 0, len(out)-1; i < j; i, j = i+1, j-1 {
				out[i], out[j] = out[j], out[i]
			}
		}
	}
	if out == nil {
		out = []val.Item{}
	}
	resp.Items = out
	resp.Count = len(out)
	return resp
}

func (m *Model) batchWrite(op drv.Op) drv.Resp {
	if len(op.Batch) > 25 {
		return reject(drv.EValidation)
	}
	for _, r := range op.Batch {
		if r.Both || r.None {
			return reject(drv.EValidation)
		}
	}
	if m.Fail == "deprecated" {
		return drv.Resp{Err: drv.EForced}
	}
	if m.Fail == "internal_server" {
		// every request is reported back as unprocessed, nothing is applied
		return drv.Resp{Unproc: append([]drv.BWReq{}, op.Batch...)}
	}
	// validate everything first: a batch containing an invalid request is rejected
	for _, r := range op.Batch {
		t, ok := m.Tables[r.Table]
		if !ok {
			return reject(drv.ENotFound)
		}
		attrs := r.Put
		if attrs == nil {
			attrs = r.Del
		}
		if _, _, ok := t.keyOf(attrs); !ok {
			return reject(drv.EValidation) // a key lacking a key attribute or carrying a wrong type (C13)
		}
		if r.Put != nil && !t.indexTypeOK(r.Put) {
			return reject(drv.EAnyErr)
		}
	}
	for _, r := range op.Batch {
		t := m.Tables[r.Table]
		if r.Put != nil {
			ks, _, _ := t.keyOf(r.Put)
			t.Items[ks] = r.Put.Clone()
		} else {
			ks, _, _ := t.keyOf(r.Del)
			delete(t.Items, ks)
		}
	}
	return drv.Resp{}
}
