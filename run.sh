#!/bin/bash
# usage: ./run.sh <property-id> <quick|thorough>
# Rebuilds the harness against /repo's current working tree (go.mod: replace => /repo) and runs
# one check. Exit 0 = property held on everything explored; 1 = VIOLATION; 2 = harness/build error.
cd "$(dirname "$(readlink -f "$0")")" || exit 2
# evidence, replays and known_findings.json live next to this script (/verif in normal use)
export VERIF_ROOT="${VERIF_ROOT:-$PWD}"
export GOFLAGS=-mod=mod GOPROXY=off GOSUMDB=off GOTOOLCHAIN=local
export VERIF_TIER="${2:-quick}"
# the tree the harness is built against: /repo (go.mod: replace => /repo); scratch copies of /verif made by
# scripts/mutcampaign.py rewrite both
VERIF_REPO="${VERIF_REPO:-/repo}"
mkdir -p bin
if [ "$1" = "C11" ]; then
  # the concurrency check links instrumented copies of the client and core packages (go build
  # -overlay; /repo itself is not touched)
  rm -rf bin/c11-overlay && mkdir -p bin/c11-overlay
  if ! go build -o bin/instr ./cmd/instr 2> bin/build.err || ! ./bin/instr "$VERIF_REPO" "$PWD/bin/c11-overlay" "$PWD/sched/verifsync/verifsync.go" > bin/instr.log 2>> bin/build.err \
     || ! go build -overlay bin/c11-overlay/overlay.json -o bin/c11 ./cmd/c11 2>> bin/build.err; then
    cat bin/build.err >&2
    echo "BUILD-ERROR: the instrumented harness does not build against /repo's working tree" >&2
    exit 2
  fi
  # free-running race-detector pass over the same scenario bodies (uninstrumented packages, -race)
  if ! go build -race -overlay bin/c11-overlay/overlay-min.json -o bin/c11race ./cmd/c11 2> bin/build.err; then
    cat bin/build.err >&2
    echo "BUILD-ERROR: the race-detector harness does not build against /repo's working tree" >&2
    exit 2
  fi
  rm -f bin/c11race.json
  ./bin/c11race racepass "${2:-quick}" "$PWD/bin/c11race.json" || { echo "HARNESS-ERROR: race-detector pass" >&2; exit 2; }
  export C11_RACE_RESULT="$PWD/bin/c11race.json"
  exec ./bin/c11 "${2:-quick}"
fi
if ! go build -o bin/check ./cmd/check 2> bin/build.err; then
  cat bin/build.err >&2
  echo "BUILD-ERROR: the harness does not build against /repo's working tree" >&2
  exit 2
fi
exec ./bin/check "$1" "${2:-quick}"
