#!/bin/bash
# usage: ./run.sh <property-id> <quick|thorough>
# Rebuilds the harness against /repo's current working tree (go.mod: replace => /repo) and runs
# one check. Exit 0 = property held on everything explored; 1 = VIOLATION; 2 = harness/build error.
cd "$(dirname "$(readlink -f "$0")")" || exit 2
# evidence, replays and known_findings.json live next to this script (/verif in normal use)
export VERIF_ROOT="${VERIF_ROOT:-$PWD}"
export GOFLAGS=-mod=mod GOPROXY=off GOSUMDB=off GOTOOLCHAIN=local
export VERIF_TIER="${2:-quick}"
mkdir -p bin
if ! go build -o bin/check ./cmd/check 2> bin/build.err; then
  cat bin/build.err >&2
  echo "BUILD-ERROR: the harness does not build against /repo's working tree" >&2
  exit 2
fi
exec ./bin/check "$1" "${2:-quick}"
