// Package mc is the explicit-state explorer (E1): breadth-first search over all histories of a
// finite operation alphabet, executed on the real client, in lock-step with the reference model,
// de-duplicated on (canonical implementation state, model state).
package mc

import (
	"fmt"
	"os"
	"runtime"
	"strings"
	"sync"
	"sync/atomic"
	"time"

	"verif/canon"
	"verif/drv"
	"verif/ev"
	"verif/model"
)

// Sys describes one exploration.
type Sys struct {
	Name     string
	NewImpl  func() drv.Driver
	Init     []drv.Op                                                  // set-up, applied to implementation and model
	Alphabet func(m *model.Model) []drv.Op                             // enabled operations, simplest first
	Observe  func(m *model.Model) []drv.Op                             // read operations compared after every transition
	SigOf    func(trans drv.Op, d *drv.Diff, observing *drv.Op) string // violation signature
	// Extra is an optional additional oracle run after a conforming transition, on the live
	// implementation (it may run further read operations); it returns violations.
	Extra func(impl drv.Driver, m *model.Model, trans drv.Op) []Extra
	// Expand, if set, decides whether the successor of a conforming transition is explored.
	Expand func(m *model.Model, depth int) bool
	// Check, if set, replaces the reference-model comparison of every response (used by the
	// v1/v2 product, where the oracle is agreement between the two clients).
	Check func(op drv.Op, got, want drv.Resp) *drv.Diff
	// OnNewState, if set, runs on every newly discovered state (after de-duplication) with the
	// live implementation; Rebuild returns a fresh implementation replayed to the same state.
	OnNewState func(c StateCtx) []Extra
	// NoExpand, if set, keeps a conforming transition from being expanded (it is still compared
	// and observed).
	NoExpand func(op drv.Op, got drv.Resp) bool
	// Skip, if set, lets a check declare a transition outside its property (counted, not
	// compared, not expanded) after seeing the implementation's response.
	Skip func(op drv.Op, got drv.Resp) bool
	// ContinueAfterKnown keeps observing after an observation read diverged in a way that is a
	// recorded finding (the state is still not expanded): a recorded finding must not hide a
	// different divergence of a later read of the same state.
	ContinueAfterKnown bool
	MaxStates          int
	MaxDepth           int
	Deadline           time.Time
}

// StateCtx is what OnNewState receives.
type StateCtx struct {
	Impl    drv.Driver
	Model   *model.Model
	Rebuild func() drv.Driver
	History []drv.Op
}

// Extra is a violation found by Sys.Extra.
type Extra struct {
	Sig    string
	Detail string
	Op     drv.Op
	Got    string
	Want   string
}

type node struct {
	parent *node
	op     drv.Op
	depth  int
	m      *model.Model
}

func (n *node) history() []drv.Op {
	h := make([]drv.Op, n.depth)
	for x := n; x.parent != nil; x = x.parent {
		h[x.depth-1] = x.op
	}
	return h
}

// Stats is the coverage of one exploration.
type Stats struct {
	States       int64
	Transitions  int64
	ObserveOps   int64
	MaxDepth     int
	Exhaustive   bool
	Outcomes     map[string]int64 // response class histogram of transitions
	CapHit       string
	Nondet       int64
	Samples      []interface{}
	SuppressedTr int64 // transitions ending in a known finding (not expanded)
	Skipped      int64 // transitions a check declared outside its property
}

// Replay is the artefact written for a violation.
type Replay struct {
	Driver  string   `json:"driver"`
	System  string   `json:"system"`
	Init    []drv.Op `json:"init"`
	History []drv.Op `json:"history"`
	Op      drv.Op   `json:"op"`
	Observe *drv.Op  `json:"observe,omitempty"`
	Got     string   `json:"got"`
	Want    string   `json:"want"`
}

func (s *Sys) compare(op drv.Op, got, want drv.Resp) *drv.Diff {
	if s.Check != nil {
		return s.Check(op, got, want)
	}
	return drv.Compare(op, got, want)
}

// DefaultSig builds the default signature.
func DefaultSig(prop string) func(trans drv.Op, d *drv.Diff, observing *drv.Op) string {
	return func(trans drv.Op, d *drv.Diff, observing *drv.Op) string {
		if observing == nil {
			return fmt.Sprintf("%s|%s|%s", prop, tag(trans), d.Kind)
		}
		return fmt.Sprintf("%s|after %s|observe %s", prop, tag(trans), d.Kind)
	}
}

func tag(o drv.Op) string {
	if o.Tag != "" {
		return o.Tag
	}
	return o.K
}

// Explore runs the search and reports violations into run.
func Explore(s Sys, run *ev.Run) Stats {
	st := Stats{Outcomes: map[string]int64{}}
	var omu sync.Mutex
	seen := map[string]bool{}
	var smu sync.Mutex

	root := &node{m: model.New()}
	{
		impl := s.NewImpl()
		for _, op := range s.Init {
			g := impl.Do(op)
			w := root.m.Do(op)
			if d := s.compare(op, g, w); d != nil {
				sig := s.SigOf(op, d, nil) + "@" + base(impl.Name())
				run.Report("init|"+sig, d.String(), Replay{Driver: impl.Name(), System: s.Name, Init: s.Init, Op: op, Got: g.Short(), Want: w.Short()})
				return st
			}
		}
		seen[canon.Hash(impl.Raw())+"|"+root.m.Canon()] = true
		st.States = 1
	}
	frontier := []*node{root}
	workers := runtime.NumCPU()
	if v := os.Getenv("VERIF_WORKERS"); v != "" {
		fmt.Sscanf(v, "%d", &workers)
	}
	var sampleMu sync.Mutex
	addSample := func(x interface{}) {
		sampleMu.Lock()
		if len(st.Samples) < 6 {
			st.Samples = append(st.Samples, x)
		}
		sampleMu.Unlock()
	}
	exhaustive := true
	for depth := 0; len(frontier) > 0; depth++ {
		if s.MaxDepth > 0 && depth >= s.MaxDepth {
			exhaustive = false
			st.CapHit = fmt.Sprintf("depth cap %d", s.MaxDepth)
			break
		}
		var next []*node
		var nmu sync.Mutex
		var idx int64 = -1
		var stop int32
		var wg sync.WaitGroup
		for w := 0; w < workers; w++ {
			wg.Add(1)
			w := w
			go func() {
				defer wg.Done()
				for {
					i := int(atomic.AddInt64(&idx, 1))
					if i >= len(frontier) || atomic.LoadInt32(&stop) != 0 {
						return
					}
					if !s.Deadline.IsZero() && time.Now().After(s.Deadline) {
						atomic.StoreInt32(&stop, 2)
						return
					}
					n := frontier[i]
					hist := n.history()
					for _, op := range s.Alphabet(n.m) {
						impl := s.NewImpl()
						for _, o := range s.Init {
							impl.Do(o)
						}
						for _, o := range hist {
							impl.Do(o)
						}
						m := n.m.Clone()
						ev.SetInFlight(w, inflightDesc(s.Name, impl.Name(), hist, op))
						got := impl.Do(op)
						want := m.Do(op)
						atomic.AddInt64(&st.Transitions, 1)
						omu.Lock()
						st.Outcomes[op.K+":"+orOK(got.Err)]++
						omu.Unlock()
						if s.Skip != nil && s.Skip(op, got) {
							atomic.AddInt64(&st.Skipped, 1)
							continue
						}
						if d := s.compare(op, got, want); d != nil {
							sig := s.SigOf(op, d, nil) + "@" + base(impl.Name())
							if run.Report(sig, d.String(), Replay{Driver: impl.Name(), System: s.Name, Init: s.Init, History: hist, Op: op, Got: got.Short(), Want: want.Short()}) {
								atomic.AddInt64(&st.SuppressedTr, 1)
							}
							continue
						}
						if len(want.AltItems) > 0 && got.Err == "" {
							m.SettleAlt(op, got.Item)
						}
						bad := false
						for _, ro := range s.Observe(m) {
							ro := ro
							g := impl.Do(ro)
							w := m.Do(ro)
							atomic.AddInt64(&st.ObserveOps, 1)
							if d := s.compare(ro, g, w); d != nil {
								sig := s.SigOf(op, d, &ro) + "@" + base(impl.Name())
								known := run.Report(sig, d.String(), Replay{Driver: impl.Name(), System: s.Name, Init: s.Init, History: hist, Op: op, Observe: &ro, Got: g.Short(), Want: w.Short()})
								if known {
									atomic.AddInt64(&st.SuppressedTr, 1)
								}
								bad = true
								if known && s.ContinueAfterKnown {
									continue
								}
								break
							}
						}
						if bad {
							continue
						}
						if s.Extra != nil {
							xs := s.Extra(impl, m, op)
							for _, x := range xs {
								if run.Report(x.Sig+"@"+base(impl.Name()), x.Detail, Replay{Driver: impl.Name(), System: s.Name, Init: s.Init, History: hist, Op: op}) {
									atomic.AddInt64(&st.SuppressedTr, 1)
								}
							}
							if len(xs) > 0 {
								continue
							}
						}
						if s.Expand != nil && !s.Expand(m, depth+1) {
							continue
						}
						if s.NoExpand != nil && s.NoExpand(op, got) {
							continue
						}
						key := canon.Hash(impl.Raw()) + "|" + m.Canon()
						smu.Lock()
						dup := seen[key]
						if !dup {
							seen[key] = true
						}
						nstates := len(seen)
						smu.Unlock()
						if dup {
							continue
						}
						if s.MaxStates > 0 && nstates > s.MaxStates {
							atomic.StoreInt32(&stop, 1)
							continue
						}
						if s.OnNewState != nil {
							full := append(append([]drv.Op{}, hist...), op)
							rebuild := func() drv.Driver {
								x := s.NewImpl()
								for _, o := range s.Init {
									x.Do(o)
								}
								for _, o := range full {
									x.Do(o)
								}
								return x
							}
							for _, x := range s.OnNewState(StateCtx{Impl: impl, Model: m, Rebuild: rebuild, History: full}) {
								if run.Report(x.Sig+"@"+base(impl.Name()), x.Detail, Replay{Driver: impl.Name(), System: s.Name, Init: s.Init, History: full, Op: x.Op, Got: x.Got, Want: x.Want}) {
									atomic.AddInt64(&st.SuppressedTr, 1)
								}
							}
						}
						nn := &node{parent: n, op: op, depth: n.depth + 1, m: m}
						nmu.Lock()
						next = append(next, nn)
						nmu.Unlock()
						if nn.depth <= 3 || nstates%997 == 0 {
							addSample(map[string]interface{}{"history": opStrings(append(hist, op)), "response": got.Short()})
						}
					}
					n.m = nil // free
				}
			}()
		}
		wg.Wait()
		switch atomic.LoadInt32(&stop) {
		case 1:
			exhaustive = false
			st.CapHit = fmt.Sprintf("state cap %d", s.MaxStates)
		case 2:
			exhaustive = false
			st.CapHit = "time cap"
		}
		if len(next) > 0 {
			st.MaxDepth = depth + 1
		}
		if !exhaustive {
			break
		}
		frontier = next
	}
	st.States = int64(len(seen))
	st.Exhaustive = exhaustive
	return st
}

// inflightDesc is the breadcrumb published before a transition runs (tags only: cheap).
func inflightDesc(sys, drvName string, hist []drv.Op, op drv.Op) string {
	var sb strings.Builder
	sb.WriteString(sys + " @" + drvName + " history:")
	for _, h := range hist {
		sb.WriteString(" " + tag(h) + ";")
	}
	sb.WriteString(" op: ")
	sb.WriteString(op.String())
	s := sb.String()
	if len(s) > 1000 {
		s = "..." + s[len(s)-997:]
	}
	return s
}

// base is the SDK adapter a driver name belongs to ("v1x2" -> "v1").
func base(n string) string {
	if len(n) >= 2 {
		return n[:2]
	}
	return n
}

func orOK(s string) string {
	if s == "" {
		return "ok"
	}
	return s
}

func opStrings(ops []drv.Op) []string {
	o := make([]string, len(ops))
	for i, x := range ops {
		o[i] = x.String()
	}
	return o
}

// Merge adds the statistics of another exploration.
func (a *Stats) Merge(b Stats) {
	a.States += b.States
	a.Transitions += b.Transitions
	a.ObserveOps += b.ObserveOps
	a.SuppressedTr += b.SuppressedTr
	a.Skipped += b.Skipped
	if b.MaxDepth > a.MaxDepth {
		a.MaxDepth = b.MaxDepth
	}
	if a.Outcomes == nil {
		a.Outcomes = map[string]int64{}
	}
	for k, v := range b.Outcomes {
		a.Outcomes[k] += v
	}
	if !b.Exhaustive {
		a.Exhaustive = false
		if a.CapHit == "" {
			a.CapHit = b.CapHit
		}
	}
	for _, s := range b.Samples {
		if len(a.Samples) < 12 {
			a.Samples = append(a.Samples, s)
		}
	}
}

// Coverage renders the statistics as evidence coverage keys.
func (a Stats) Coverage() map[string]interface{} {
	samples := a.Samples
	if len(samples) == 0 {
		samples = []interface{}{"(no successor state)"}
	}
	return map[string]interface{}{
		"states":                              a.States,
		"transitions":                         a.Transitions,
		"traces_validated_against_impl":       a.Transitions,
		"observation_ops_compared":            a.ObserveOps,
		"max_depth":                           a.MaxDepth,
		"exhaustive":                          a.Exhaustive,
		"cap_hit":                             a.CapHit,
		"outcome_histogram":                   a.Outcomes,
		"distinct_outcomes":                   len(a.Outcomes),
		"transitions_ending_in_known_finding": a.SuppressedTr,
		"samples":                             samples,
	}
}
