// Package canon computes a canonical dump / hash of an arbitrary Go value by reflection,
// including unexported fields (read-only). It is used only to de-duplicate implementation
// states during exploration, never as an oracle. It names no field of the implementation.
package canon

import (
	"crypto/sha256"
	"encoding/hex"
	"fmt"
	"reflect"
	"sort"
	"strings"
)

type walker struct {
	sb   strings.Builder
	seen map[uintptr]int
}

// Dump renders v canonically.
func Dump(v interface{}) string {
	w := &walker{seen: map[uintptr]int{}}
	w.walk(reflect.ValueOf(v))
	return w.sb.String()
}

// Hash is the SHA-256 of Dump, shortened.
func Hash(v interface{}) string {
	h := sha256.Sum256([]byte(Dump(v)))
	return hex.EncodeToString(h[:12])
}

func (w *walker) walk(v reflect.Value) {
	if !v.IsValid() {
		w.sb.WriteString("<invalid>")
		return
	}
	switch v.Kind() {
	case reflect.Ptr:
		if v.IsNil() {
			w.sb.WriteString("nil")
			return
		}
		p := v.Pointer()
		if n, ok := w.seen[p]; ok {
			fmt.Fprintf(&w.sb, "^%d", n)
			return
		}
		w.seen[p] = len(w.seen)
		w.sb.WriteString("&")
		w.walk(v.Elem())
	case reflect.Interface:
		if v.IsNil() {
			w.sb.WriteString("nil")
			return
		}
		w.sb.WriteString("(" + v.Elem().Type().String() + ")")
		w.walk(v.Elem())
	case reflect.Struct:
		t := v.Type()
		if t.PkgPath() == "sync" || t.PkgPath() == "sync/atomic" || strings.HasSuffix(t.PkgPath(), "/verifsync") {
			w.sb.WriteString("<sync>")
			return
		}
		w.sb.WriteString("{")
		for i := 0; i < v.NumField(); i++ {
			if i > 0 {
				w.sb.WriteString(",")
			}
			w.sb.WriteString(t.Field(i).Name + ":")
			w.walk(v.Field(i))
		}
		w.sb.WriteString("}")
	case reflect.Map:
		if v.IsNil() {
			w.sb.WriteString("nilmap")
			return
		}
		type kv struct {
			k string
			v reflect.Value
		}
		kvs := make([]kv, 0, v.Len())
		it := v.MapRange()
		for it.Next() {
			kw := &walker{seen: w.seen}
			kw.walk(it.Key())
			kvs = append(kvs, kv{kw.sb.String(), it.Value()})
		}
		sort.Slice(kvs, func(i, j int) bool { return kvs[i].k < kvs[j].k })
		w.sb.WriteString("map[")
		for i, e := range kvs {
			if i > 0 {
				w.sb.WriteString(",")
			}
			w.sb.WriteString(e.k + "=>")
			w.walk(e.v)
		}
		w.sb.WriteString("]")
	case reflect.Slice:
		if v.IsNil() {
			w.sb.WriteString("nilslice")
			return
		}
		fallthrough
	case reflect.Array:
		if v.Type().Elem().Kind() == reflect.Uint8 {
			fmt.Fprintf(&w.sb, "x%x.", bytesOf(v))
			return
		}
		w.sb.WriteString("[")
		for i := 0; i < v.Len(); i++ {
			if i > 0 {
				w.sb.WriteString(",")
			}
			w.walk(v.Index(i))
		}
		w.sb.WriteString("]")
	case reflect.String:
		fmt.Fprintf(&w.sb, "%q", v.String())
	case reflect.Bool:
		fmt.Fprintf(&w.sb, "%v", v.Bool())
	case reflect.Int, reflect.Int8, reflect.Int16, reflect.Int32, reflect.Int64:
		fmt.Fprintf(&w.sb, "%d", v.Int())
	case reflect.Uint, reflect.Uint8, reflect.Uint16, reflect.Uint32, reflect.Uint64, reflect.Uintptr:
		fmt.Fprintf(&w.sb, "%d", v.Uint())
	case reflect.Float32, reflect.Float64:
		fmt.Fprintf(&w.sb, "%v", v.Float())
	case reflect.Func:
		if v.IsNil() {
			w.sb.WriteString("nilfunc")
		} else {
			w.sb.WriteString("func")
		}
	case reflect.Chan, reflect.UnsafePointer:
		w.sb.WriteString("<" + v.Kind().String() + ">")
	default:
		w.sb.WriteString("<?" + v.Kind().String() + ">")
	}
}

func bytesOf(v reflect.Value) []byte {
	b := make([]byte, v.Len())
	for i := range b {
		b[i] = byte(v.Index(i).Uint())
	}
	return b
}
