// Command c11 is the C11 check (concurrency safety and atomicity). It must be built with the
// overlay produced by cmd/instr (see run.sh): the minidyn client and core packages it links are
// the instrumented ones and github.com/truora/minidyn/zzverif/verifsync is the controlled
// scheduler.
package main

import (
	"bytes"
	"encoding/json"
	"fmt"
	"os"
	"os/exec"
	"path/filepath"
	"sort"
	"strings"
	"sync"
	"sync/atomic"
	"time"

	vs "github.com/truora/minidyn/zzverif/verifsync"

	"verif/drv"
	"verif/ev"
	"verif/rx"
	"verif/val"
)

type call struct {
	name string
	op   drv.Op
	sub  []drv.Op // decomposition of a batch call for the sequential reference
}

func hk(s string) val.Item { return val.Item{"h": val.S(s)} }

var tabCfg = drv.TableCfg{Hash: "h", HashT: "S", Billing: "PAY_PER_REQUEST"}

func callMenu(v2 bool) []call {
	one := map[string]val.V{":one": val.N("1")}
	cs := []call{
		{name: "Put(k1)", op: drv.Op{K: drv.KPut, Table: "tab", Item: val.Item{"h": val.S("k1"), "a": val.S("put")}}},
		{name: "Put(k1,attribute_not_exists)", op: drv.Op{K: drv.KPut, Table: "tab", Item: val.Item{"h": val.S("k1"), "a": val.S("cond")}, Cond: rx.NotExists("h")}},
		{name: "Upd(k1,ADD n 1)", op: drv.Op{K: drv.KUpd, Table: "tab", Key: hk("k1"), Upd: rx.U(rx.Add("n", ":one")), Values: one}},
		{name: "Del(k1)", op: drv.Op{K: drv.KDel, Table: "tab", Key: hk("k1"), AllOld: true}},
		{name: "Get(k1)", op: drv.Op{K: drv.KGet, Table: "tab", Key: hk("k1")}},
		{name: "Scan", op: drv.Op{K: drv.KScan, Table: "tab"}},
		{name: "Query(k1)", op: drv.Op{K: drv.KQuery, Table: "tab", KeyCond: rx.Eq("h", ":k"), Values: map[string]val.V{":k": val.S("k1")}}},
		{name: "BatchWrite(put k1,put k2)", op: drv.Op{K: drv.KBatchWrite, Batch: []drv.BWReq{{Table: "tab", Put: val.Item{"h": val.S("k1"), "a": val.S("batch")}}, {Table: "tab", Put: val.Item{"h": val.S("k2"), "a": val.S("batch")}}}},
			sub: []drv.Op{{K: drv.KPut, Table: "tab", Item: val.Item{"h": val.S("k1"), "a": val.S("batch")}}, {K: drv.KPut, Table: "tab", Item: val.Item{"h": val.S("k2"), "a": val.S("batch")}}}},
		{name: "CreateTable", op: drv.Op{K: drv.KCreate, Table: "tab", Cfg: &tabCfg}},
		{name: "DeleteTable", op: drv.Op{K: drv.KDeleteTbl, Table: "tab"}},
		{name: "UpdateTable(+gsi)", op: drv.Op{K: drv.KCreateGSI, Table: "tab", IdxCfg: &drv.IndexCfg{Name: "gsi", Hash: "a", HashT: "S"}}},
		{name: "DescribeTable", op: drv.Op{K: drv.KDescribe, Table: "tab"}},
		{name: "ClearTable", op: drv.Op{K: drv.KClear, Table: "tab"}},
		{name: "EmulateFailure(on)", op: drv.Op{K: drv.KFail, Fail: "internal_server"}},
		{name: "EmulateFailure(off)", op: drv.Op{K: drv.KFail, Fail: "none"}},
		{name: "ActivateNativeInterpreter", op: drv.Op{K: drv.KActivateNative}},
		{name: "SetInterpreter", op: drv.Op{K: drv.KSetInterpreter}},
		{name: "SetItemCollectionMetrics", op: drv.Op{K: drv.KSetICM}},
		{name: "ActivateDebug", op: drv.Op{K: drv.KActivateDebug}},
		{name: "TransactWriteItems", op: drv.Op{K: drv.KTransact}},
	}
	if v2 {
		// conditional writes that fail and carry the stored item back (the v1 request types have no such field)
		cs = append(cs,
			call{name: "Upd(k1,failing condition,ALL_OLD on failure)", op: drv.Op{K: drv.KUpd, Table: "tab", Key: hk("k1"), Upd: rx.U(rx.Add("n", ":one")), Values: one, Cond: rx.NotExists("h"), RetOnFail: true}},
			call{name: "Del(k1,failing condition,ALL_OLD on failure)", op: drv.Op{K: drv.KDel, Table: "tab", Key: hk("k1"), Cond: rx.NotExists("h"), RetOnFail: true}},
		)
		cs = append(cs, call{name: "BatchGet(k1,k2)", op: drv.Op{K: drv.KBatchGet, BGKeys: map[string][]val.Item{"tab": {hk("k1"), hk("k2")}}},
			sub: []drv.Op{{K: drv.KGet, Tag: "failure-check", Table: "tab", Key: hk("zz")}, {K: drv.KGet, Table: "tab", Key: hk("k1")}, {K: drv.KGet, Table: "tab", Key: hk("k2")}}})
	}
	return cs
}

func indexCalls() []call {
	return []call{
		{name: "Query(gsi)", op: drv.Op{K: drv.KQuery, Table: "tab", Index: "gsi", KeyCond: rx.Eq("a", ":a"), Values: map[string]val.V{":a": val.S("init")}}},
		{name: "Scan(gsi)", op: drv.Op{K: drv.KScan, Table: "tab", Index: "gsi"}},
	}
}

type scenario struct {
	name    string
	init    string // absent | empty | present | indexed (k1, k2 and a GSI on attribute a)
	threads [][]call
}

// errSeqDeadlock is raised when a single thread blocks on its own: a sequential deadlock.
type seqDeadlock struct{ what string }

// managed runs f as the only thread of a scheduler execution, so that a call that blocks on a
// mutex it already holds is detected structurally ("no enabled thread") instead of hanging.
func managed(what string, f func()) {
	s := vs.Run([]func(){f}, nil)
	if s.Deadlock || s.Livelock {
		panic(seqDeadlock{what})
	}
}

func setup(newImpl func() drv.Driver, init string) drv.Driver {
	impl := newImpl()
	managed("set-up ("+init+")", func() {
		if init != "absent" {
			impl.Do(drv.Op{K: drv.KCreate, Table: "tab", Cfg: &tabCfg})
		}
		if init == "present" || init == "indexed" {
			impl.Do(drv.Op{K: drv.KPut, Table: "tab", Item: val.Item{"h": val.S("k1"), "a": val.S("init"), "n": val.N("0")}})
		}
		if init == "indexed" {
			impl.Do(drv.Op{K: drv.KPut, Table: "tab", Item: val.Item{"h": val.S("k2"), "a": val.S("init")}})
			impl.Do(drv.Op{K: drv.KCreateGSI, Table: "tab", IdxCfg: &drv.IndexCfg{Name: "gsi", Hash: "a", HashT: "S"}})
		}
	})
	return impl
}

func observe(impl drv.Driver) string {
	var sb strings.Builder
	managed("final observation", func() {
		impl.Do(drv.Op{K: drv.KFail, Fail: "none"}) // reads fail while a failure is emulated: look at the data itself
		for _, o := range []drv.Op{{K: drv.KDescribe, Table: "tab"}, {K: drv.KGet, Table: "tab", Key: hk("k1")}, {K: drv.KGet, Table: "tab", Key: hk("k2")}, {K: drv.KScan, Table: "tab"}, {K: drv.KScan, Table: "tab", Index: "gsi"}} {
			sb.WriteString(impl.Do(o).Short())
			sb.WriteString(" | ")
		}
	})
	return sb.String()
}

// failState records whether a failure is being emulated (part of the outcome, observed before
// observe() switches it off).
func failState(impl drv.Driver) string {
	r := ""
	managed("failure probe", func() { r = "probe:" + impl.Do(drv.Op{K: drv.KGet, Table: "tab", Key: hk("zz")}).Err })
	return r
}

// batchKey is the normalised response of a batch call: error class, or the number of
// unprocessed requests/keys and the multiset of returned items.
func batchKey(c call, err string, unproc int, items []string) string {
	if err != "" {
		return c.name + "=>err=" + err
	}
	sort.Strings(items)
	return fmt.Sprintf("%s=>unprocessed=%d items=%v", c.name, unproc, items)
}

func respKey(c call, r drv.Resp) string {
	switch c.op.K {
	case drv.KBatchWrite:
		return batchKey(c, r.Err, len(r.Unproc), nil)
	case drv.KBatchGet:
		var items []string
		n := 0
		for _, its := range r.BGResp {
			for _, it := range its {
				items = append(items, it.Canon())
			}
		}
		for _, ks := range r.BGUnproc {
			n += len(ks)
		}
		return batchKey(c, r.Err, n, items)
	}
	s := r.Short()
	if len(s) > 300 {
		s = s[:300]
	}
	return c.name + "=>" + s
}

// allowed computes the outcomes of every sequential order of the calls (thread order kept, batch
// calls decomposed into their requests).
func allowed(newImpl func() drv.Driver, sc scenario) map[string]bool {
	type atom struct {
		thread, idx int
		ops         []drv.Op
		last        bool // last atom of its call: the call's response is produced here
	}
	// per thread: sequence of atoms
	var seqs [][]atom
	for ti, th := range sc.threads {
		var s []atom
		for ci, c := range th {
			if len(c.sub) > 0 {
				for k, so := range c.sub {
					s = append(s, atom{ti, ci, []drv.Op{so}, k == len(c.sub)-1})
				}
			} else {
				s = append(s, atom{ti, ci, []drv.Op{c.op}, true})
			}
		}
		seqs = append(seqs, s)
	}
	out := map[string]bool{}
	pos := make([]int, len(seqs))
	var order []atom
	var rec func()
	rec = func() {
		done := true
		for ti := range seqs {
			if pos[ti] < len(seqs[ti]) {
				done = false
				order = append(order, seqs[ti][pos[ti]])
				pos[ti]++
				rec()
				pos[ti]--
				order = order[:len(order)-1]
			}
		}
		if !done {
			return
		}
		impl := setup(newImpl, sc.init)
		resps := map[[2]int]string{}
		type bstate struct {
			err    string
			unproc int
			items  []string
		}
		batch := map[[2]int]*bstate{}
		seq := append([]atom{}, order...)
		managed("sequential order of "+sc.name, func() {
			for _, a := range seq {
				c := sc.threads[a.thread][a.idx]
				k := [2]int{a.thread, a.idx}
				if len(c.sub) == 0 {
					resps[k] = respKey(c, impl.Do(a.ops[0]))
					continue
				}
				b := batch[k]
				if b == nil {
					b = &bstate{}
					batch[k] = b
				}
				if b.err == "" {
					r := impl.Do(a.ops[0])
					switch {
					case a.ops[0].Tag == "failure-check":
						// BatchGetItem looks at the failure switch once before its first request
						if r.Err == drv.EInternal || r.Err == drv.EForced {
							b.err = r.Err
						}
					case c.op.K == drv.KBatchGet && r.Err == drv.ENotFound:
						b.err = r.Err // a table that does not exist fails the whole call
					case c.op.K == drv.KBatchGet:
						if r.Err != "" || len(r.Item) == 0 {
							b.unproc++ // errors and absent keys are reported as unprocessed keys (SDK v2)
						} else {
							b.items = append(b.items, r.Item.Canon())
						}
					case r.Err == drv.EInternal:
						b.unproc++ // retryable: the request is reported as unprocessed, the batch goes on
					case r.Err != "":
						b.err = r.Err // a batch stops at its first failing request and returns that error
					}
				}
				if a.last {
					resps[k] = batchKey(c, b.err, b.unproc, b.items)
				}
			}
		})
		out[outcomeKey(sc, resps, failState(impl), observe(impl))] = true
	}
	rec()
	return out
}

func outcomeKey(sc scenario, resps map[[2]int]string, fail, obs string) string {
	var p []string
	for ti, th := range sc.threads {
		for ci := range th {
			p = append(p, resps[[2]int{ti, ci}])
		}
	}
	return strings.Join(p, " ; ") + " ## " + fail + " ## " + obs
}

type stats struct {
	Schedules, Steps, Scenarios, Races, DistinctOutcomes int64
	Touches, HBChecked                                   int64
	MaxChoices                                           int64
	Capped                                               int64
}

// explore runs every schedule of the scenario with at most `bound` preemptions.
func explore(run *ev.Run, st *stats, newImpl func() drv.Driver, drvName string, sc scenario, bound int, deadline time.Time) {
	defer func() {
		if p := recover(); p != nil {
			sd, isSD := p.(seqDeadlock)
			if !isSD {
				panic(p)
			}
			emit(run, "C11|deadlock|single-thread|"+scKinds(sc)+"@"+drvName, fmt.Sprintf("scenario %s (init %s): %s blocks on its own (a call waits for a mutex its own thread holds)", sc.name, sc.init, sd.what),
				map[string]interface{}{"driver": drvName, "scenario": sc.name, "init": sc.init})
		}
	}()
	ok := allowed(newImpl, sc)
	outcomes := map[string]bool{}
	reported := map[string]bool{}
	report := func(sig, detail string, prefix []int) {
		if reported[sig] {
			return
		}
		reported[sig] = true
		emit(run, sig+"@"+drvName, detail, map[string]interface{}{"driver": drvName, "scenario": sc.name, "init": sc.init, "schedule": prefix, "preemption_bound": bound})
	}
	var dfs func(prefix []int)
	execs := 0
	dfs = func(prefix []int) {
		if !deadline.IsZero() && time.Now().After(deadline) {
			atomic.StoreInt64(&st.Capped, 1)
			return
		}
		impl := setup(newImpl, sc.init)
		resps := map[[2]int]string{}
		var bodies []func()
		for ti, th := range sc.threads {
			ti, th := ti, th
			bodies = append(bodies, func() {
				for ci, c := range th {
					vs.Note("begin", c.name)
					r := impl.Do(c.op)
					resps[[2]int{ti, ci}] = respKey(c, r)
					vs.Note("end", c.name)
				}
			})
		}
		s := vs.Run(bodies, prefix)
		execs++
		if execs%64 == 0 {
			ev.Progress()
		}
		atomic.AddInt64(&st.Schedules, 1)
		nsteps := 0
		for i := range s.Events {
			if s.Events[i].Kind != "touch" && s.Events[i].Kind != "acquire" && s.Events[i].Kind != "racquire" {
				nsteps++
			}
		}
		atomic.AddInt64(&st.Steps, int64(nsteps))
		if int64(len(s.Choices)) > atomic.LoadInt64(&st.MaxChoices) {
			atomic.StoreInt64(&st.MaxChoices, int64(len(s.Choices)))
		}
		taken := make([]int, len(s.Choices))
		for i, c := range s.Choices {
			taken[i] = c.Taken
		}
		switch {
		case s.Diverged != "":
			report("C11|replay-diverged|"+sc.name, s.Diverged, taken)
			return
		case s.Deadlock:
			report("C11|deadlock|"+scKinds(sc), fmt.Sprintf("scenario %s (init %s): no enabled thread; events: %s", sc.name, sc.init, tail(s.Events, 12)), taken)
			return
		case s.Livelock:
			report("C11|livelock|"+scKinds(sc), fmt.Sprintf("scenario %s: more than %d scheduling steps", sc.name, s.MaxSteps), taken)
			return
		}
		// panics
		for k, r := range resps {
			if strings.Contains(r, "PANIC") {
				report("C11|panic|"+sc.threads[k[0]][k[1]].name, fmt.Sprintf("scenario %s (init %s): %s", sc.name, sc.init, r), taken)
			}
		}
		// lockset race check
		for _, rc := range races(s.Events) {
			atomic.AddInt64(&st.Races, 1)
			report("C11|data-race|"+rc.field+"|"+rc.calls, fmt.Sprintf("scenario %s (init %s): %s", sc.name, sc.init, rc.detail), taken)
		}
		// happens-before race check over every recorded access, including the silent ones on maps
		// and slices anywhere in the library
		for _, rc := range hbRaces(s.Events, len(sc.threads), st) {
			report("C11|unordered-accesses|"+rc.field+"|"+rc.calls, fmt.Sprintf("scenario %s (init %s): %s", sc.name, sc.init, rc.detail), taken)
		}
		// linearizability: the outcome equals that of some sequential order
		key := outcomeKey(sc, resps, failState(impl), observe(impl))
		outcomes[key] = true
		if !ok[key] {
			report("C11|not-linearizable|"+scKinds(sc), fmt.Sprintf("scenario %s (init %s): outcome %s is not the outcome of any sequential order; sequential outcomes: %s", sc.name, sc.init, key, keysOf(ok)), taken)
		}
		// children: alternatives at every later choice within the preemption bound
		pre := 0
		for i := 0; i < len(s.Choices); i++ {
			c := s.Choices[i]
			if i >= len(prefix) {
				for alt := 1; alt < len(c.Enabled); alt++ {
					cost := pre
					if c.Running {
						cost++
					}
					if cost > bound {
						continue
					}
					np := append(append([]int{}, taken[:i]...), alt)
					dfs(np)
				}
			}
			if c.Running && c.Taken != 0 {
				pre++
			}
		}
	}
	dfs(nil)
	atomic.AddInt64(&st.Scenarios, 1)
	atomic.AddInt64(&st.DistinctOutcomes, int64(len(outcomes)))
}

func scKinds(sc scenario) string {
	var p []string
	for _, th := range sc.threads {
		for _, c := range th {
			p = append(p, c.name)
		}
	}
	sort.Strings(p)
	return strings.Join(p, "~")
}

func keysOf(m map[string]bool) string {
	var p []string
	for k := range m {
		p = append(p, k)
	}
	sort.Strings(p)
	s := strings.Join(p, " || ")
	if len(s) > 1500 {
		s = s[:1500] + "…"
	}
	return s
}

func tail(evs []vs.Event, n int) string {
	if len(evs) > n {
		evs = evs[len(evs)-n:]
	}
	var p []string
	for _, e := range evs {
		p = append(p, fmt.Sprintf("t%d:%s %s%s", e.Thread, e.Kind, e.Field, e.Where))
	}
	return strings.Join(p, ", ")
}

type raceRep struct{ field, calls, detail string }

// races applies the lockset rule: two accesses to the same location from different threads, at
// least one a write, with no mutex held in common.
func races(evs []vs.Event) []raceRep {
	type acc struct {
		e    vs.Event
		call string
	}
	cur := map[int]string{}
	by := map[string][]acc{}
	for _, e := range evs {
		switch e.Kind {
		case "begin":
			cur[e.Thread] = e.Field
		case "access":
			k := e.Key()
			by[k] = append(by[k], acc{e, cur[e.Thread]})
		}
	}
	seen := map[string]bool{}
	var out []raceRep
	for _, as := range by {
		for i := 0; i < len(as); i++ {
			for j := i + 1; j < len(as); j++ {
				a, b := as[i], as[j]
				if a.e.Thread == b.e.Thread || (!a.e.Write && !b.e.Write) {
					continue
				}
				// a common mutex orders the two accesses only if at least one side holds it
				// exclusively: two holders of the read side of an RWMutex run concurrently
				common := false
				for _, x := range a.e.Locks {
					for _, y := range b.e.Locks {
						if x == y && (holds(a.e.Excl, x) || holds(b.e.Excl, x)) {
							common = true
						}
					}
				}
				if common {
					continue
				}
				var unlocked []string
				if len(a.e.Excl) == 0 {
					unlocked = append(unlocked, a.call)
				}
				if len(b.e.Excl) == 0 {
					unlocked = append(unlocked, b.call)
				}
				sort.Strings(unlocked)
				if len(unlocked) == 2 && unlocked[0] == unlocked[1] {
					unlocked = unlocked[:1]
				}
				sig := a.e.Field + "|unlocked:" + strings.Join(unlocked, "~")
				if seen[sig] {
					continue
				}
				seen[sig] = true
				out = append(out, raceRep{a.e.Field, "unlocked:" + strings.Join(unlocked, "~"), fmt.Sprintf("%s (%s, write=%v, locks=%d) by thread %d in %s vs %s (write=%v, locks=%d) by thread %d in %s",
					a.e.Field, a.e.Where, a.e.Write, len(a.e.Locks), a.e.Thread, a.call, b.e.Where, b.e.Write, len(b.e.Locks), b.e.Thread, b.call)})
			}
		}
	}
	return out
}

// hbRaces is a vector-clock (happens-before) race check over the recorded events: a mutex release
// happens before the next acquisition of that mutex (a reader's release only before the next
// writer), program order within a thread; two accesses to the same location from different threads,
// one of them a write, that are not ordered are reported. Unlike the lockset rule this needs no
// lock to be named: it also judges accesses made after the mutex was released on data that another
// call changes under the mutex (an item map handed out of the critical section).
func hbRaces(evs []vs.Event, n int, st *stats) []raceRep {
	type vc []int
	clock := make([]vc, n)
	for i := range clock {
		clock[i] = make(vc, n)
		clock[i][i] = 1
	}
	join := func(a, b vc) {
		for i := range a {
			if b[i] > a[i] {
				a[i] = b[i]
			}
		}
	}
	relAll := map[interface{}]vc{}   // every release (writers and readers)
	relWrite := map[interface{}]vc{} // releases of exclusive holds
	type last struct {
		wThread, wClock int
		wWhere, wCall   string
		rClock          []int
		rWhere, rCall   []string
	}
	locs := map[string]*last{}
	cur := map[int]string{}
	seen := map[string]bool{}
	var out []raceRep
	rep := func(e vs.Event, what, where1, call1, where2, call2 string) {
		ws := []string{where1, where2}
		sort.Strings(ws)
		field := e.Field
		if e.Kind == "touch" {
			field = "map-or-slice"
		}
		sig := field + "|" + ws[0] + "~" + ws[1]
		if seen[sig] {
			return
		}
		seen[sig] = true
		out = append(out, raceRep{field, ws[0] + "~" + ws[1], fmt.Sprintf("%s: %s in %s and %s in %s are not ordered by any mutex hand-over (%s)", field, where1, call1, where2, call2, what)})
	}
	for _, e := range evs {
		t := e.Thread
		if t < 0 || t >= n {
			continue
		}
		switch e.Kind {
		case "begin":
			cur[t] = e.Field
		case "acquire":
			if r, ok := relAll[e.Ptr]; ok {
				join(clock[t], r)
			}
		case "racquire":
			if r, ok := relWrite[e.Ptr]; ok {
				join(clock[t], r)
			}
		case "unlock":
			c := append(vc{}, clock[t]...)
			relWrite[e.Ptr] = c
			if r, ok := relAll[e.Ptr]; ok {
				c2 := append(vc{}, r...)
				join(c2, c)
				relAll[e.Ptr] = c2
			} else {
				relAll[e.Ptr] = c
			}
			clock[t][t]++
		case "runlock":
			c := append(vc{}, clock[t]...)
			if r, ok := relAll[e.Ptr]; ok {
				c2 := append(vc{}, r...)
				join(c2, c)
				relAll[e.Ptr] = c2
			} else {
				relAll[e.Ptr] = c
			}
			clock[t][t]++
		case "access", "touch":
			if e.Kind == "touch" {
				atomic.AddInt64(&st.Touches, 1)
			}
			atomic.AddInt64(&st.HBChecked, 1)
			k := e.Key()
			l := locs[k]
			if l == nil {
				l = &last{wThread: -1, rClock: make([]int, n), rWhere: make([]string, n), rCall: make([]string, n)}
				locs[k] = l
			}
			if l.wThread >= 0 && l.wThread != t && l.wClock > clock[t][l.wThread] {
				rep(e, "write then "+map[bool]string{true: "write", false: "read"}[e.Write], l.wWhere, l.wCall, e.Where, cur[t])
			}
			if e.Write {
				for u := 0; u < n; u++ {
					if u != t && l.rClock[u] > clock[t][u] {
						rep(e, "read then write", l.rWhere[u], l.rCall[u], e.Where, cur[t])
					}
				}
				l.wThread, l.wClock, l.wWhere, l.wCall = t, clock[t][t], e.Where, cur[t]
			} else {
				l.rClock[t], l.rWhere[t], l.rCall[t] = clock[t][t], e.Where, cur[t]
			}
		}
	}
	return out
}

func holds(ls []interface{}, m interface{}) bool {
	for _, x := range ls {
		if x == m {
			return true
		}
	}
	return false
}

func main() {
	if len(os.Args) < 2 {
		fmt.Fprintln(os.Stderr, "usage: c11 <quick|thorough>")
		os.Exit(3)
	}
	if os.Args[1] == "racepass" && len(os.Args) >= 4 {
		os.Exit(racePassMain(os.Args[2], os.Args[3]))
	}
	tier := os.Args[1]
	if r := os.Getenv("VERIF_ROOT"); r != "" {
		ev.Root = r
	}
	if os.Getenv("VERIF_WORKER") == "" && os.Getenv("VERIF_NO_SUPERVISOR") == "" {
		os.Args = []string{os.Args[0], "C11", tier}
		// Supervise re-executes os.Args[0] with os.Args[1:]; the worker recognises itself by VERIF_WORKER
		os.Exit(ev.Supervise("C11", tier))
	}
	if len(os.Args) >= 3 {
		tier = os.Args[2]
	}
	ev.InitWorker()
	run := ev.NewRun("C11", tier)
	thorough := tier == "thorough"
	deadline := time.Now().Add(6 * time.Minute)
	if thorough {
		deadline = time.Now().Add(40 * time.Minute)
	}
	st := &stats{}
	jobs := buildJobs(thorough)
	// the scheduler is a process-wide singleton: scenarios run one after the other
	var mu sync.Mutex
	_ = mu
	only := os.Getenv("C11_ONLY")
	shard, nshards := 0, 1
	fmt.Sscanf(os.Getenv("C11_SHARD"), "%d/%d", &shard, &nshards)
	if nshards < 1 {
		nshards = 1
	}
	if os.Getenv("C11_SHARD") == "" && only == "" {
		os.Exit(runSharded(run, tier, len(jobs)))
	}
	for i, j := range jobs {
		if i%nshards != shard {
			continue
		}
		if only != "" && !strings.Contains(j.sc.name+" init="+j.sc.init+" "+j.drvName, only) {
			continue
		}
		if f := os.Getenv("C11_PROGRESS"); f != "" {
			if pf, err := os.OpenFile(f, os.O_APPEND|os.O_WRONLY|os.O_CREATE, 0o644); err == nil {
				pf.WriteString(".")
				pf.Close()
			}
		}
		ev.SetInFlight(0, fmt.Sprintf("C11 scenario %d/%d %s init=%s driver=%s bound=%d", i+1, len(jobs), j.sc.name, j.sc.init, j.drvName, j.bound))
		explore(run, st, j.newImpl, j.drvName, j.sc, j.bound, deadline)
		if atomic.LoadInt64(&st.Capped) != 0 {
			break
		}
	}
	cov := coverage(st, len(jobs))
	if out := os.Getenv("C11_RESULT"); out != "" {
		b, _ := json.Marshal(shardResult{Stats: *st, Reports: shardReports})
		os.WriteFile(out, b, 0o644)
		os.Exit(0)
	}
	os.Exit(run.Finish(cov))
}

type job struct {
	newImpl func() drv.Driver
	drvName string
	sc      scenario
	bound   int
}

// buildJobs lists the scenarios of a tier (shared by the controlled-scheduler exploration and
// by the free-running race-detector pass, which runs the same thread bodies).
func buildJobs(thorough bool) []job {
	var jobs []job
	drivers := []struct {
		name string
		mk   func() drv.Driver
	}{{"v2", func() drv.Driver { return drv.NewV2() }}, {"v1", func() drv.Driver { return drv.NewV1() }}}
	for _, d := range drivers {
		menu := callMenu(d.name == "v2")
		// every unordered pair of calls (including a call with itself) from every initial state
		pairBound := 1
		if thorough {
			pairBound = 2
		}
		for i := 0; i < len(menu); i++ {
			for j := i; j < len(menu); j++ {
				for _, init := range []string{"absent", "empty", "present"} {
					jobs = append(jobs, job{d.mk, d.name, scenario{name: menu[i].name + " || " + menu[j].name, init: init, threads: [][]call{{menu[i]}, {menu[j]}}}, pairBound})
				}
			}
		}
		// reads through a secondary index (they use per-index scratch state) against every call,
		// from a state whose index holds two entries
		idx := indexCalls()
		for i := 0; i < len(idx); i++ {
			for j := i; j < len(idx); j++ {
				jobs = append(jobs, job{d.mk, d.name, scenario{name: idx[i].name + " || " + idx[j].name, init: "indexed", threads: [][]call{{idx[i]}, {idx[j]}}}, pairBound + 1})
			}
			for j := 0; j < len(menu); j++ {
				jobs = append(jobs, job{d.mk, d.name, scenario{name: idx[i].name + " || " + menu[j].name, init: "indexed", threads: [][]call{{idx[i]}, {menu[j]}}}, pairBound})
			}
		}
		// the named scenarios of the property: N concurrent ADD 1 => N; N racing attribute_not_exists puts => one success
		add := menu[2]
		putc := menu[1]
		for _, n := range []int{2, 3} {
			var ta, tp [][]call
			for k := 0; k < n; k++ {
				ta = append(ta, []call{add})
				tp = append(tp, []call{putc})
			}
			b := 2
			jobs = append(jobs, job{d.mk, d.name, scenario{name: fmt.Sprintf("%d x ADD 1", n), init: "present", threads: ta}, b})
			jobs = append(jobs, job{d.mk, d.name, scenario{name: fmt.Sprintf("%d x ADD 1", n), init: "empty", threads: ta}, b})
			jobs = append(jobs, job{d.mk, d.name, scenario{name: fmt.Sprintf("%d x Put(attribute_not_exists)", n), init: "empty", threads: tp}, b})
		}
		// two calls per thread: writer then reader against a writer
		jobs = append(jobs, job{d.mk, d.name, scenario{name: "Put;Get || Del;Put", init: "empty", threads: [][]call{{menu[0], menu[4]}, {menu[3], menu[0]}}}, 2})
		jobs = append(jobs, job{d.mk, d.name, scenario{name: "Upd;Scan || Upd;Get", init: "present", threads: [][]call{{menu[2], menu[5]}, {menu[2], menu[4]}}}, 2})
		jobs = append(jobs, job{d.mk, d.name, scenario{name: "CreateTable;Put || CreateTable;Put", init: "absent", threads: [][]call{{menu[8], menu[0]}, {menu[8], menu[0]}}}, 2})
		// three threads, one call each, over the calls that write shared state (quick: bound 1)
		{
			tri := []call{menu[0], menu[2], menu[3], menu[8], menu[9], menu[12]}
			for i := 0; i < len(tri); i++ {
				for j := i; j < len(tri); j++ {
					for k := j; k < len(tri); k++ {
						if thorough {
							continue // covered by the larger set below
						}
						jobs = append(jobs, job{d.mk, d.name, scenario{name: tri[i].name + " || " + tri[j].name + " || " + tri[k].name, init: "present", threads: [][]call{{tri[i]}, {tri[j]}, {tri[k]}}}, 1})
					}
				}
			}
		}
		if thorough {
			// pairs once more with three preemptions, from the state that has data
			for i := 0; i < len(menu); i++ {
				for j := i; j < len(menu); j++ {
					jobs = append(jobs, job{d.mk, d.name, scenario{name: menu[i].name + " || " + menu[j].name, init: "present", threads: [][]call{{menu[i]}, {menu[j]}}}, 3})
				}
			}
			// two calls per thread over the writers
			w := []call{menu[0], menu[1], menu[2], menu[3], menu[7], menu[8], menu[9], menu[12]}
			for i := 0; i < len(w); i++ {
				for j := 0; j < len(w); j++ {
					jobs = append(jobs, job{d.mk, d.name, scenario{name: w[i].name + ";" + w[j].name + " || " + w[j].name + ";" + w[i].name, init: "empty", threads: [][]call{{w[i], w[j]}, {w[j], w[i]}}}, 2})
				}
			}
			// triples of data operations and management operations
			tri := []call{menu[0], menu[2], menu[3], menu[7], menu[8], menu[9], menu[12], menu[13]}
			for i := 0; i < len(tri); i++ {
				for j := i; j < len(tri); j++ {
					for k := j; k < len(tri); k++ {
						jobs = append(jobs, job{d.mk, d.name, scenario{name: tri[i].name + " || " + tri[j].name + " || " + tri[k].name, init: "present", threads: [][]call{{tri[i]}, {tri[j]}, {tri[k]}}}, 2})
					}
				}
			}
		}
	}
	return jobs
}

func coverage(st *stats, njobs int) map[string]interface{} {
	cov := map[string]interface{}{
		"states":                                    st.Steps,
		"transitions":                               st.Steps,
		"traces_validated_against_impl":             st.Schedules,
		"schedules":                                 st.Schedules,
		"scenarios":                                 st.Scenarios,
		"scenarios_planned":                         njobs,
		"max_choice_points":                         st.MaxChoices,
		"distinct_outcomes_summed":                  st.DistinctOutcomes,
		"lockset_violations_seen":                   st.Races,
		"map_and_slice_accesses_recorded":           st.Touches,
		"accesses_checked_for_happens_before_order": st.HBChecked,
		"exhaustive":                                st.Capped == 0,
		"samples":                                   []interface{}{"Put(k1) || Upd(k1,ADD n 1) from init=present, preemption bound 1", "3 x ADD 1, bound 2", "CreateTable;Put || CreateTable;Put"},
		"bounds":                                    "every pair of the call menu (incl. a call with itself) from the states {table absent, table empty, k1 present}, and Query/Scan through a secondary index against every call from the state {k1, k2, GSI on a}: all schedules with at most 1 (thorough: 2) preemptions at Lock/Unlock/Access points of the client packages and at every statement of core/table.go and core/index.go; named N-thread scenarios and two-call threads with at most 2 preemptions; thorough: triples with at most 1 preemption; both SDK clients",
		"oracle":                                    "per execution: no deadlock (no enabled thread), no livelock, no panic, lockset race freedom over the recorded accesses to Client fields and core.Table / index objects, and the recorded responses plus the final observation equal those of some sequential order of the same calls run on a fresh client (batch calls decomposed into their requests)",
		"states_note":                               "states = scheduling steps executed (every step runs the real, instrumented client code); schedules = complete executions",
	}
	if st.Capped != 0 {
		cov["cap_hit"] = "time cap"
	}
	return cov
}

// emit records a violation: directly in a single-process run, into the shard result otherwise.
func emit(run *ev.Run, sig, detail string, replay interface{}) {
	if os.Getenv("C11_RESULT") != "" {
		shardReports = append(shardReports, shardReport{sig, detail, replay})
		return
	}
	run.Report(sig, detail, replay)
}

type shardReport struct {
	Sig, Detail string
	Replay      interface{}
}

type shardResult struct {
	Stats   stats
	Reports []shardReport
}

var shardReports []shardReport

// runSharded spreads the scenarios over worker processes (the scheduler is a process-wide
// singleton) and merges their reports and statistics.
func runSharded(run *ev.Run, tier string, njobs int) int {
	n := 12
	if v := os.Getenv("C11_SHARDS"); v != "" {
		fmt.Sscanf(v, "%d", &n)
	}
	dir, err := os.MkdirTemp("", "c11-shards-")
	if err != nil {
		fmt.Fprintln(os.Stderr, err)
		return 3
	}
	defer os.RemoveAll(dir)
	type child struct {
		cmd      *exec.Cmd
		out, prg string
		errBuf   *bytes.Buffer
	}
	var cs []*child
	for i := 0; i < n; i++ {
		c := &child{out: filepath.Join(dir, fmt.Sprintf("result-%d.json", i)), prg: filepath.Join(dir, fmt.Sprintf("progress-%d", i)), errBuf: &bytes.Buffer{}}
		c.cmd = exec.Command(os.Args[0], "C11", tier)
		c.cmd.Env = append(os.Environ(), "VERIF_WORKER=1", fmt.Sprintf("C11_SHARD=%d/%d", i, n), "C11_RESULT="+c.out, "C11_PROGRESS="+c.prg, "VERIF_INFLIGHT=")
		c.cmd.Stderr = c.errBuf
		if err := c.cmd.Start(); err != nil {
			fmt.Fprintln(os.Stderr, err)
			return 3
		}
		cs = append(cs, c)
	}
	done := make(chan int, n)
	for i, c := range cs {
		i, c := i, c
		go func() { c.cmd.Wait(); done <- i }()
	}
	finished := 0
	var last int64 = -1
	tick := time.NewTicker(time.Second)
	for finished < n {
		select {
		case <-done:
			finished++
		case <-tick.C:
			var total int64
			for _, c := range cs {
				if fi, err := os.Stat(c.prg); err == nil {
					total += fi.Size()
				}
			}
			if total != last {
				last = total
				ev.SetInFlight(0, fmt.Sprintf("C11: %d of %d scenarios started across %d shards", total, njobs, n))
			}
		}
	}
	total := stats{}
	for i, c := range cs {
		b, err := os.ReadFile(c.out)
		var r shardResult
		if err != nil || json.Unmarshal(b, &r) != nil {
			msg := c.errBuf.String()
			if len(msg) > 1500 {
				msg = msg[:1500]
			}
			run.Report("C11|worker-crash", fmt.Sprintf("shard %d/%d died without a result (runtime fault in the code under check): %s", i, n, msg), map[string]interface{}{"shard": i, "stderr": msg})
			continue
		}
		for _, rep := range r.Reports {
			run.Report(rep.Sig, rep.Detail, rep.Replay)
		}
		total.Schedules += r.Stats.Schedules
		total.Steps += r.Stats.Steps
		total.Scenarios += r.Stats.Scenarios
		total.Races += r.Stats.Races
		total.Touches += r.Stats.Touches
		total.HBChecked += r.Stats.HBChecked
		total.DistinctOutcomes += r.Stats.DistinctOutcomes
		if r.Stats.MaxChoices > total.MaxChoices {
			total.MaxChoices = r.Stats.MaxChoices
		}
		if r.Stats.Capped != 0 {
			total.Capped = 1
		}
	}
	cov := coverage(&total, njobs)
	cov["shards"] = n
	mergeRacePass(run, cov)
	return run.Finish(cov)
}

// mergeRacePass adds what the free-running race-detector pass (racepass.go, run by run.sh before
// this process) found and covered.
func mergeRacePass(run *ev.Run, cov map[string]interface{}) {
	f := os.Getenv("C11_RACE_RESULT")
	if f == "" {
		cov["race_detector_pass"] = "not run"
		return
	}
	b, err := os.ReadFile(f)
	var r raceResult
	if err != nil || json.Unmarshal(b, &r) != nil {
		fmt.Fprintln(os.Stderr, "C11: the race-detector pass left no readable result:", f)
		os.Exit(3)
	}
	for _, rep := range r.Reports {
		run.Report(rep.Sig, rep.Detail, map[string]interface{}{"pass": "free-running race detector", "scenario": rep.Scenario})
	}
	cov["race_detector_pass"] = map[string]interface{}{"scenarios": r.Scenarios, "repetitions_each": r.Reps, "executions": r.Executions, "reports": len(r.Reports),
		"note": "same thread bodies on real goroutines, uninstrumented, built with -race; supplementary (not an enumeration): guards the assumption that the accesses marked by the instrumenter are all the shared accesses"}
}
