package main

// Free-running race-detector pass (DESIGN.md section 1.7). The controlled scheduler serialises
// every access, so Go's race detector sees nothing under it, and the lockset rule only knows the
// accesses the instrumenter marked (fields of Client, core.Table, core.index). This pass runs the
// thread bodies of the very same scenarios on real goroutines, uninstrumented, in a binary built
// with -race: it is not an enumeration (the schedules are whatever the runtime produces) and it
// decides nothing on its own - it guards the assumption that the marked accesses are all the
// shared accesses there are (a package-level variable, a cache inside the interpreter, state
// reached through a shared read lock). What it finds is reported by the C11 check as
// C11|race-detector|<frames>.

import (
	"encoding/json"
	"fmt"
	"os"
	"os/exec"
	"path/filepath"
	"regexp"
	"sort"
	"strings"
	"sync"
	"time"
)

type raceReport struct {
	Sig, Detail, Scenario string
}

type raceResult struct {
	Scenarios  int
	Executions int64
	Reps       int
	Shards     int
	Reports    []raceReport
}

var frameRe = regexp.MustCompile(`^\s+(\S*minidyn\S*)\(\)`)

// parseRaces turns the race detector's log text into one report per warning block.
func parseRaces(text, scenario string) []raceReport {
	var out []raceReport
	for _, blk := range strings.Split(text, "==================") {
		if !strings.Contains(blk, "WARNING: DATA RACE") {
			continue
		}
		var tops []string
		lines := strings.Split(blk, "\n")
		for i, l := range lines {
			t := strings.TrimSpace(l)
			if strings.HasPrefix(t, "Write at") || strings.HasPrefix(t, "Read at") || strings.HasPrefix(t, "Previous write at") || strings.HasPrefix(t, "Previous read at") {
				for j := i + 1; j < len(lines) && strings.TrimSpace(lines[j]) != ""; j++ {
					if m := frameRe.FindStringSubmatch(lines[j]); m != nil && !strings.Contains(m[1], "zzverif") {
						f := m[1]
						if k := strings.LastIndex(f, "/"); k >= 0 {
							f = f[k+1:]
						}
						tops = append(tops, f)
						break
					}
				}
			}
		}
		sort.Strings(tops)
		d := strings.TrimSpace(blk)
		if len(d) > 1800 {
			d = d[:1800] + "…"
		}
		out = append(out, raceReport{Sig: "C11|race-detector|" + strings.Join(tops, "~"), Detail: "free-running pass, scenario " + scenario + ": " + d, Scenario: scenario})
	}
	return out
}

func logSize(prefix string) (int64, []string) {
	files, _ := filepath.Glob(prefix + "*")
	var n int64
	for _, f := range files {
		if fi, err := os.Stat(f); err == nil {
			n += fi.Size()
		}
	}
	return n, files
}

func readFrom(files []string, skip int64) string {
	// the log of one process is one file: everything after the first `skip` bytes is new
	var sb strings.Builder
	for _, f := range files {
		b, _ := os.ReadFile(f)
		if int64(len(b)) > skip {
			sb.Write(b[skip:])
			skip = 0
		} else {
			skip -= int64(len(b))
		}
	}
	return sb.String()
}

// racePassMain: c11race racepass <tier> <outfile>
func racePassMain(tier, outfile string) int {
	thorough := tier == "thorough"
	jobs := buildJobs(thorough)
	reps := 40
	if thorough {
		reps = 400
	}
	if v := os.Getenv("C11_RACE_REPS"); v != "" {
		fmt.Sscanf(v, "%d", &reps)
	}
	if sh := os.Getenv("C11_RACE_SHARD"); sh != "" {
		return raceShard(jobs, reps, sh)
	}
	n := 12
	dir, err := os.MkdirTemp("", "c11-race-")
	if err != nil {
		fmt.Fprintln(os.Stderr, err)
		return 3
	}
	defer os.RemoveAll(dir)
	type child struct {
		cmd *exec.Cmd
		out string
		err *strings.Builder
	}
	var cs []*child
	for i := 0; i < n; i++ {
		c := &child{out: filepath.Join(dir, fmt.Sprintf("out-%d.json", i)), err: &strings.Builder{}}
		c.cmd = exec.Command(os.Args[0], "racepass", tier, c.out)
		c.cmd.Env = append(os.Environ(), fmt.Sprintf("C11_RACE_SHARD=%d/%d", i, n), "GORACE=halt_on_error=0 log_path="+filepath.Join(dir, fmt.Sprintf("race-%d", i)), "C11_RACE_LOG="+filepath.Join(dir, fmt.Sprintf("race-%d", i)), "C11_RACE_OUT="+c.out)
		c.cmd.Stderr = c.err
		if err := c.cmd.Start(); err != nil {
			fmt.Fprintln(os.Stderr, err)
			return 3
		}
		cs = append(cs, c)
	}
	res := raceResult{Scenarios: len(jobs), Reps: reps, Shards: n}
	seen := map[string]bool{}
	for i, c := range cs {
		werr := c.cmd.Wait()
		b, rerr := os.ReadFile(c.out)
		var r raceResult
		if rerr != nil || json.Unmarshal(b, &r) != nil {
			msg := c.err.String()
			if len(msg) > 1800 {
				msg = msg[len(msg)-1800:]
			}
			// whatever the detector logged before the process died still counts
			_, files := logSize(filepath.Join(dir, fmt.Sprintf("race-%d", i)))
			for _, rep := range parseRaces(readFrom(files, 0), "(shard died)") {
				if !seen[rep.Sig] {
					seen[rep.Sig] = true
					res.Reports = append(res.Reports, rep)
				}
			}
			res.Reports = append(res.Reports, raceReport{Sig: "C11|race-pass-crash", Detail: fmt.Sprintf("free-running pass: shard %d/%d died (%v) without a result - a runtime fault such as concurrent map writes, or a hang: %s", i, n, werr, msg)})
			continue
		}
		res.Executions += r.Executions
		for _, rep := range r.Reports {
			if !seen[rep.Sig] {
				seen[rep.Sig] = true
				res.Reports = append(res.Reports, rep)
			}
		}
	}
	b, _ := json.MarshalIndent(res, "", " ")
	if err := os.WriteFile(outfile, b, 0o644); err != nil {
		fmt.Fprintln(os.Stderr, err)
		return 3
	}
	fmt.Printf("race pass: %d scenarios x %d repetitions, %d executions, %d reports\n", res.Scenarios, reps, res.Executions, len(res.Reports))
	return 0
}

func raceShard(jobs []job, reps int, sh string) int {
	shard, nshards := 0, 1
	fmt.Sscanf(sh, "%d/%d", &shard, &nshards)
	logp := os.Getenv("C11_RACE_LOG")
	res := raceResult{}
	for i, j := range jobs {
		if i%nshards != shard {
			continue
		}
		before, _ := logSize(logp)
		name := fmt.Sprintf("%s init=%s driver=%s", j.sc.name, j.sc.init, j.drvName)
		for r := 0; r < reps; r++ {
			impl := setup(j.newImpl, j.sc.init)
			start := make(chan struct{})
			var wg sync.WaitGroup
			for _, th := range j.sc.threads {
				th := th
				wg.Add(1)
				go func() {
					defer wg.Done()
					<-start
					for _, c := range th {
						impl.Do(c.op)
					}
				}()
			}
			done := make(chan struct{})
			go func() { wg.Wait(); close(done) }()
			close(start)
			select {
			case <-done:
			case <-time.After(30 * time.Second):
				res.Reports = append(res.Reports, raceReport{Sig: "C11|race-pass-hang|" + scKinds(j.sc), Detail: "free-running pass: scenario " + name + " did not finish within 30 s (deadlock between real goroutines)", Scenario: name})
				b, _ := json.Marshal(res)
				os.WriteFile(os.Getenv("C11_RACE_OUT"), b, 0o644)
				return 0
			}
			res.Executions++
		}
		after, files := logSize(logp)
		if after > before {
			res.Reports = append(res.Reports, parseRaces(readFrom(files, before), name)...)
		}
	}
	b, _ := json.Marshal(res)
	os.WriteFile(os.Getenv("C11_RACE_OUT"), b, 0o644)
	return 0
}
