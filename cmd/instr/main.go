// Command instr instruments the minidyn sources for the C11 check and writes a go build
// overlay: in the client packages "sync" is re-pointed to the scheduler shim and every statement
// that touches a field of Client or of core.Table is preceded by an Access point; in package
// core every statement of table.go and index.go is preceded by a scheduling point and every
// method of Table / index starts with an Access on its receiver. Nothing under /repo is changed.
//
// usage: instr <repo> <outdir> <shim.go>
package main

import (
	"bytes"
	"encoding/json"
	"fmt"
	"go/ast"
	"go/parser"
	"go/printer"
	"go/token"
	"os"
	"path/filepath"
	"sort"
	"strconv"
	"strings"
)

const shimPath = "github.com/truora/minidyn/zzverif/verifsync"

func die(format string, a ...interface{}) {
	fmt.Fprintf(os.Stderr, "instr: "+format+"\n", a...)
	os.Exit(2)
}

func structFields(file, typeName string) map[string]bool {
	fset := token.NewFileSet()
	f, err := parser.ParseFile(fset, file, nil, 0)
	if err != nil {
		die("%v", err)
	}
	out := map[string]bool{}
	ast.Inspect(f, func(n ast.Node) bool {
		ts, ok := n.(*ast.TypeSpec)
		if !ok || ts.Name.Name != typeName {
			return true
		}
		st, ok := ts.Type.(*ast.StructType)
		if !ok {
			return true
		}
		for _, fl := range st.Fields.List {
			for _, n := range fl.Names {
				out[n.Name] = true
			}
		}
		return false
	})
	return out
}

type access struct {
	x     string
	field string
	write bool
}

type instr struct {
	fset         *token.FileSet
	file         string
	clientFields map[string]bool
	tableFields  map[string]bool
	pkgNames     map[string]bool
	core         bool
	touchOnly    bool // packages other than the clients and core/table.go, core/index.go: only Touch calls
	inserted     int
}

// simple reports whether evaluating e twice is harmless: identifiers and selector chains.
func simple(e ast.Expr) bool {
	switch x := e.(type) {
	case *ast.Ident:
		return x.Name != "_"
	case *ast.SelectorExpr:
		return simple(x.X)
	case *ast.ParenExpr:
		return simple(x.X)
	}
	return false
}

func rootIdent(e ast.Expr) string {
	switch x := e.(type) {
	case *ast.Ident:
		return x.Name
	case *ast.SelectorExpr:
		return rootIdent(x.X)
	case *ast.ParenExpr:
		return rootIdent(x.X)
	}
	return ""
}

type touch struct {
	x     ast.Expr
	write bool
}

func exprText(e ast.Expr) string {
	var b bytes.Buffer
	printer.Fprint(&b, token.NewFileSet(), e)
	return b.String()
}

// touchesOf lists the maps and slices a statement indexes, ranges over or deletes from, as far
// as they are evaluated unconditionally and named by a side-effect-free expression. Nested
// blocks, function literals and the right operands of && and || are not visited.
func touchesOf(s ast.Stmt) []touch {
	seen := map[string]int{}
	var out []touch
	add := func(x ast.Expr, write bool) {
		if !simple(x) {
			return
		}
		k := exprText(x)
		if i, ok := seen[k]; ok {
			if write {
				out[i].write = true
			}
			return
		}
		seen[k] = len(out)
		out = append(out, touch{x, write})
	}
	var walk func(n ast.Node, write bool)
	walk = func(n ast.Node, write bool) {
		switch e := n.(type) {
		case nil:
			return
		case *ast.FuncLit, *ast.BlockStmt, *ast.CompositeLit:
			return
		case *ast.ParenExpr:
			walk(e.X, write)
		case *ast.IndexExpr:
			add(e.X, write)
			walk(e.X, false)
			walk(e.Index, false)
		case *ast.BinaryExpr:
			walk(e.X, false)
			if e.Op != token.LAND && e.Op != token.LOR {
				walk(e.Y, false)
			}
		case *ast.UnaryExpr:
			walk(e.X, write || e.Op == token.AND)
		case *ast.StarExpr:
			walk(e.X, false)
		case *ast.SelectorExpr:
			walk(e.X, false)
		case *ast.SliceExpr:
			walk(e.X, false)
		case *ast.TypeAssertExpr:
			walk(e.X, false)
		case *ast.KeyValueExpr:
			walk(e.Value, false)
		case *ast.CallExpr:
			if id, ok := e.Fun.(*ast.Ident); ok && id.Name == "delete" && len(e.Args) == 2 {
				add(e.Args[0], true)
				walk(e.Args[1], false)
				return
			}
			walk(e.Fun, false)
			for _, a := range e.Args {
				walk(a, false)
			}
		}
	}
	defined := map[string]bool{}
	def := func(st ast.Stmt) {
		if as, ok := st.(*ast.AssignStmt); ok && as.Tok == token.DEFINE {
			for _, l := range as.Lhs {
				if id, ok := l.(*ast.Ident); ok {
					defined[id.Name] = true
				}
			}
		}
	}
	var stmt func(st ast.Stmt)
	stmt = func(st ast.Stmt) {
		switch x := st.(type) {
		case *ast.AssignStmt:
			for _, l := range x.Lhs {
				walk(l, true)
			}
			for _, r := range x.Rhs {
				walk(r, false)
			}
		case *ast.IncDecStmt:
			walk(x.X, true)
		case *ast.ExprStmt:
			walk(x.X, false)
		case *ast.ReturnStmt:
			for _, r := range x.Results {
				walk(r, false)
			}
		case *ast.IfStmt:
			if x.Init != nil {
				def(x.Init)
				stmt(x.Init)
			}
			walk(x.Cond, false)
		case *ast.SwitchStmt:
			if x.Init != nil {
				def(x.Init)
				stmt(x.Init)
			}
			if x.Tag != nil {
				walk(x.Tag, false)
			}
		case *ast.ForStmt:
			// the condition and post statement run many times: only the init is looked at
			if x.Init != nil {
				def(x.Init)
				stmt(x.Init)
			}
		case *ast.RangeStmt:
			add(x.X, false)
			walk(x.X, false)
		case *ast.DeferStmt:
			for _, a := range x.Call.Args {
				walk(a, false)
			}
		}
	}
	stmt(s)
	// an operand whose root variable the statement itself defines does not exist before it
	var keep []touch
	for _, t := range out {
		if as, ok := s.(*ast.AssignStmt); ok && as.Tok == token.DEFINE {
			def(as)
		}
		if !defined[rootIdent(t.x)] {
			keep = append(keep, t)
		}
	}
	return keep
}

func (in *instr) where(pos token.Pos) string {
	p := in.fset.Position(pos)
	return filepath.Base(p.Filename) + ":" + strconv.Itoa(p.Line)
}

// collect finds the accesses of an expression tree; write marks the whole tree as a store target.
func (in *instr) collect(n ast.Node, write bool, out map[access]bool) {
	if n == nil {
		return
	}
	switch e := n.(type) {
	case *ast.FuncLit:
		return
	case *ast.SelectorExpr:
		if id, ok := e.X.(*ast.Ident); ok && !in.pkgNames[id.Name] {
			switch {
			case in.clientFields[e.Sel.Name] && e.Sel.Name != "mu":
				out[access{id.Name, e.Sel.Name, write}] = true
			case in.tableFields[e.Sel.Name]:
				out[access{id.Name, "table", write}] = true
			}
			return
		}
		in.collect(e.X, false, out)
		return
	case *ast.IndexExpr:
		in.collect(e.X, write, out)
		in.collect(e.Index, false, out)
		return
	case *ast.CallExpr:
		if id, ok := e.Fun.(*ast.Ident); ok && id.Name == "delete" && len(e.Args) > 0 {
			in.collect(e.Args[0], true, out)
			for _, a := range e.Args[1:] {
				in.collect(a, false, out)
			}
			return
		}
		in.collect(e.Fun, false, out)
		for _, a := range e.Args {
			in.collect(a, false, out)
		}
		return
	case *ast.UnaryExpr:
		// &fd.field: conservatively a write (the address escapes)
		in.collect(e.X, write || e.Op == token.AND, out)
		return
	case *ast.StarExpr:
		in.collect(e.X, write, out)
		return
	case *ast.ParenExpr:
		in.collect(e.X, write, out)
		return
	}
	// generic traversal of expressions
	ast.Inspect(n, func(c ast.Node) bool {
		if c == n {
			return true
		}
		switch c.(type) {
		case *ast.FuncLit:
			return false
		case *ast.SelectorExpr, *ast.IndexExpr, *ast.CallExpr, *ast.UnaryExpr, *ast.StarExpr, *ast.ParenExpr:
			in.collect(c, false, out)
			return false
		case *ast.BlockStmt:
			return false
		}
		return true
	})
}

func (in *instr) stmtAccesses(s ast.Stmt) map[access]bool {
	out := map[access]bool{}
	switch st := s.(type) {
	case *ast.AssignStmt:
		for _, l := range st.Lhs {
			in.collect(l, true, out)
		}
		for _, r := range st.Rhs {
			in.collect(r, false, out)
		}
	case *ast.IncDecStmt:
		in.collect(st.X, true, out)
	case *ast.ExprStmt:
		in.collect(st.X, false, out)
	case *ast.ReturnStmt:
		for _, r := range st.Results {
			in.collect(r, false, out)
		}
	case *ast.IfStmt:
		if st.Init != nil {
			for a := range in.stmtAccesses(st.Init) {
				out[a] = true
			}
		}
		in.collect(st.Cond, false, out)
	case *ast.ForStmt:
		if st.Init != nil {
			for a := range in.stmtAccesses(st.Init) {
				out[a] = true
			}
		}
		if st.Cond != nil {
			in.collect(st.Cond, false, out)
		}
	case *ast.RangeStmt:
		in.collect(st.X, false, out)
	case *ast.SwitchStmt:
		if st.Init != nil {
			for a := range in.stmtAccesses(st.Init) {
				out[a] = true
			}
		}
		if st.Tag != nil {
			in.collect(st.Tag, false, out)
		}
	case *ast.DeclStmt:
		in.collect(st.Decl, false, out)
	case *ast.DeferStmt:
		// the deferred call runs later; its arguments are evaluated now
		for _, a := range st.Call.Args {
			in.collect(a, false, out)
		}
	case *ast.GoStmt:
		for _, a := range st.Call.Args {
			in.collect(a, false, out)
		}
	case *ast.SendStmt:
		in.collect(st.Chan, false, out)
		in.collect(st.Value, false, out)
	}
	return out
}

func call(fn string, args ...ast.Expr) ast.Stmt {
	return &ast.ExprStmt{X: &ast.CallExpr{Fun: &ast.SelectorExpr{X: ast.NewIdent("zzv"), Sel: ast.NewIdent(fn)}, Args: args}}
}

func str(s string) ast.Expr { return &ast.BasicLit{Kind: token.STRING, Value: strconv.Quote(s)} }

func boolLit(b bool) ast.Expr {
	if b {
		return ast.NewIdent("true")
	}
	return ast.NewIdent("false")
}

func (in *instr) block(list []ast.Stmt) []ast.Stmt {
	var out []ast.Stmt
	for _, s := range list {
		// recurse first
		switch st := s.(type) {
		case *ast.BlockStmt:
			st.List = in.block(st.List)
		case *ast.IfStmt:
			in.ifStmt(st)
		case *ast.ForStmt:
			st.Body.List = in.block(st.Body.List)
		case *ast.RangeStmt:
			st.Body.List = in.block(st.Body.List)
		case *ast.SwitchStmt:
			for _, c := range st.Body.List {
				cc := c.(*ast.CaseClause)
				cc.Body = in.block(cc.Body)
			}
		case *ast.TypeSwitchStmt:
			for _, c := range st.Body.List {
				cc := c.(*ast.CaseClause)
				cc.Body = in.block(cc.Body)
			}
		case *ast.SelectStmt:
			for _, c := range st.Body.List {
				cc := c.(*ast.CommClause)
				cc.Body = in.block(cc.Body)
			}
		case *ast.LabeledStmt:
			// leave labelled statements alone
		}
		if _, labelled := s.(*ast.LabeledStmt); !labelled {
			for _, t := range touchesOf(s) {
				if in.pkgNames[rootIdent(t.x)] {
					if _, isSel := t.x.(*ast.SelectorExpr); !isSel {
						continue
					}
				}
				out = append(out, call("Touch", t.x, boolLit(t.write), str(in.where(s.Pos()))))
				in.inserted++
			}
		}
		if in.touchOnly {
			out = append(out, s)
			continue
		}
		if in.core {
			out = append(out, call("Point", str(in.where(s.Pos()))))
			in.inserted++
		} else {
			acc := in.stmtAccesses(s)
			// a write dominates a read of the same location
			keys := make([]access, 0, len(acc))
			for a := range acc {
				if !a.write && acc[access{a.x, a.field, true}] {
					continue
				}
				keys = append(keys, a)
			}
			sort.Slice(keys, func(i, j int) bool {
				return keys[i].x+keys[i].field < keys[j].x+keys[j].field
			})
			for _, a := range keys {
				out = append(out, call("Access", ast.NewIdent(a.x), str(a.field), boolLit(a.write), str(in.where(s.Pos()))))
				in.inserted++
			}
		}
		out = append(out, s)
	}
	return out
}

func (in *instr) ifStmt(st *ast.IfStmt) {
	st.Body.List = in.block(st.Body.List)
	switch e := st.Else.(type) {
	case *ast.BlockStmt:
		e.List = in.block(e.List)
	case *ast.IfStmt:
		in.ifStmt(e)
	}
}

// readOnly lists methods of Table / index that do not modify their receiver; every other
// method counts as a write access.
var readOnly = map[string]bool{
	"Description": true, "IndexesDescription": true, "getItem": true, "parseStartKey": true, "matchKey": true, "interpreterMatch": true,
	"getMatchedItemAndCount": true, "getLastKey": true, "validateAttributeDefinition": true, "validateIndexKeys": true,
	"resumeAfterMissingStartKey": true, "count": true, "lessKey": true,
}

func (in *instr) processFile(path string, outPath string) {
	f, err := parser.ParseFile(in.fset, path, nil, parser.ParseComments)
	if err != nil {
		die("%v", err)
	}
	in.pkgNames = map[string]bool{}
	hasSync := false
	for _, im := range f.Imports {
		p, _ := strconv.Unquote(im.Path.Value)
		name := filepath.Base(p)
		if im.Name != nil {
			name = im.Name.Name
		}
		in.pkgNames[name] = true
		if p == "sync" {
			hasSync = true
			im.Path.Value = strconv.Quote(shimPath)
			im.Name = ast.NewIdent("sync")
		}
		if p == "sync/atomic" {
			die("%s imports sync/atomic: the scheduler shim does not model atomics, the C11 exploration would be incomplete", path)
		}
	}
	_ = hasSync
	before := in.inserted
	for _, d := range f.Decls {
		fd, ok := d.(*ast.FuncDecl)
		if !ok || fd.Body == nil {
			continue
		}
		fd.Body.List = in.block(fd.Body.List)
		if in.core && fd.Recv != nil && len(fd.Recv.List) == 1 && len(fd.Recv.List[0].Names) == 1 {
			recvType := ""
			switch t := fd.Recv.List[0].Type.(type) {
			case *ast.StarExpr:
				if id, ok := t.X.(*ast.Ident); ok {
					recvType = id.Name
				}
			}
			if recvType == "Table" || recvType == "index" {
				field := "table"
				if recvType == "index" {
					field = "index"
				}
				a := call("Access", ast.NewIdent(fd.Recv.List[0].Names[0].Name), str(field), boolLit(!readOnly[fd.Name.Name]), str(in.where(fd.Pos())+" "+fd.Name.Name))
				fd.Body.List = append([]ast.Stmt{a}, fd.Body.List...)
				in.inserted++
			}
		}
	}
	if in.inserted > before {
		// add the import of the shim under the name zzv
		spec := &ast.ImportSpec{Name: ast.NewIdent("zzv"), Path: &ast.BasicLit{Kind: token.STRING, Value: strconv.Quote(shimPath)}}
		added := false
		for _, d := range f.Decls {
			if gd, ok := d.(*ast.GenDecl); ok && gd.Tok == token.IMPORT {
				gd.Specs = append(gd.Specs, spec)
				if !gd.Lparen.IsValid() {
					gd.Lparen = gd.Pos()
					gd.Rparen = gd.End()
				}
				added = true
				break
			}
		}
		if !added {
			gd := &ast.GenDecl{Tok: token.IMPORT, Specs: []ast.Spec{spec}}
			f.Decls = append([]ast.Decl{gd}, f.Decls...)
		}
	}
	var buf bytes.Buffer
	// comments are dropped: positions of inserted nodes would otherwise misplace them
	f.Comments = nil
	if err := printer.Fprint(&buf, token.NewFileSet(), f); err != nil {
		die("print %s: %v", path, err)
	}
	if err := os.WriteFile(outPath, buf.Bytes(), 0o644); err != nil {
		die("%v", err)
	}
}

func main() {
	if len(os.Args) != 4 {
		die("usage: instr <repo> <outdir> <shim.go>")
	}
	repo, outdir, shim := os.Args[1], os.Args[2], os.Args[3]
	os.MkdirAll(outdir, 0o755)
	tableFields := structFields(filepath.Join(repo, "core", "table.go"), "Table")
	if len(tableFields) == 0 {
		die("type Table not found in core/table.go")
	}
	overlay := map[string]string{filepath.Join(repo, "zzverif", "verifsync", "verifsync.go"): shim}
	total := 0
	for _, pkg := range []string{"aws-v1/client", "aws-v2/client"} {
		clientFields := structFields(filepath.Join(repo, pkg, "client.go"), "Client")
		if !clientFields["mu"] {
			die("%s: type Client has no field mu", pkg)
		}
		files, _ := filepath.Glob(filepath.Join(repo, pkg, "*.go"))
		for _, f := range files {
			if strings.HasSuffix(f, "_test.go") {
				continue
			}
			in := &instr{fset: token.NewFileSet(), file: f, clientFields: clientFields, tableFields: tableFields}
			out := filepath.Join(outdir, strings.ReplaceAll(pkg, "/", "_")+"_"+filepath.Base(f))
			in.processFile(f, out)
			overlay[f] = out
			total += in.inserted
		}
	}
	for _, name := range []string{"table.go", "index.go"} {
		f := filepath.Join(repo, "core", name)
		in := &instr{fset: token.NewFileSet(), file: f, core: true}
		out := filepath.Join(outdir, "core_"+name)
		in.processFile(f, out)
		overlay[f] = out
		total += in.inserted
	}
	// every other non-test file of the library: Touch calls only (maps and slices reached outside
	// the client structures: item maps, interpreter environments, package-level tables)
	for _, pkg := range []string{"core", "interpreter", "interpreter/language", "types"} {
		files, _ := filepath.Glob(filepath.Join(repo, pkg, "*.go"))
		sort.Strings(files)
		for _, f := range files {
			if strings.HasSuffix(f, "_test.go") || overlay[f] != "" {
				continue
			}
			in := &instr{fset: token.NewFileSet(), file: f, touchOnly: true}
			out := filepath.Join(outdir, strings.ReplaceAll(pkg, "/", "_")+"_"+filepath.Base(f))
			in.processFile(f, out)
			if in.inserted > 0 {
				overlay[f] = out
			}
			total += in.inserted
		}
	}
	// the race-detector pass links the uninstrumented packages: its overlay only supplies the shim
	bm, _ := json.MarshalIndent(map[string]interface{}{"Replace": map[string]string{filepath.Join(repo, "zzverif", "verifsync", "verifsync.go"): shim}}, "", " ")
	if err := os.WriteFile(filepath.Join(outdir, "overlay-min.json"), bm, 0o644); err != nil {
		panic(err)
	}
	b, _ := json.MarshalIndent(map[string]interface{}{"Replace": overlay}, "", " ")
	if err := os.WriteFile(filepath.Join(outdir, "overlay.json"), b, 0o644); err != nil {
		die("%v", err)
	}
	fmt.Printf("instr: %d points inserted, overlay %s\n", total, filepath.Join(outdir, "overlay.json"))
}
