package main

import (
	"encoding/json"
	"fmt"
	"os"

	"verif/drv"
	"verif/itp"
	"verif/model"
	"verif/rx"
	"verif/val"
)

// replay re-executes one violation artefact without any explorer: the recorded history is run
// on a fresh real client and on a fresh reference model and the two answers of the final
// operation (or observation read) are printed side by side. Exit 1 if they still diverge.
func replay(path string) int {
	b, err := os.ReadFile(path)
	if err != nil {
		fmt.Fprintln(os.Stderr, err)
		return 3
	}
	var f struct {
		Property  string          `json:"property"`
		Signature string          `json:"signature"`
		Detail    string          `json:"detail"`
		Replay    json.RawMessage `json:"replay"`
	}
	if err := json.Unmarshal(b, &f); err != nil {
		fmt.Fprintln(os.Stderr, err)
		return 3
	}
	fmt.Printf("property %s\nsignature %s\nrecorded: %s\n\n", f.Property, f.Signature, f.Detail)
	// shape 1: an explorer history
	var h struct {
		Driver  string   `json:"driver"`
		System  string   `json:"system"`
		Init    []drv.Op `json:"init"`
		History []drv.Op `json:"history"`
		Op      *drv.Op  `json:"op"`
		Observe *drv.Op  `json:"observe"`
	}
	if json.Unmarshal(f.Replay, &h) == nil && h.Op != nil && h.Driver != "" {
		var impl drv.Driver
		switch {
		case len(h.Driver) >= 2 && h.Driver[:2] == "v1":
			impl = drv.NewV1()
		default:
			impl = drv.NewV2()
		}
		if len(h.Driver) > 2 && h.Driver[2] == 'x' {
			if h.Driver[:2] == "v1" {
				impl = &drv.Multi{Cs: []drv.Driver{drv.NewV1(), drv.NewV1()}}
			} else {
				impl = &drv.Multi{Cs: []drv.Driver{drv.NewV2(), drv.NewV2()}}
			}
		}
		if len(h.Driver) > 2 && h.Driver[2] == '+' {
			impl = &drv.Product{A: drv.NewV1(), B: drv.NewV2()}
		}
		m := model.New()
		step := func(tag string, op drv.Op) (drv.Resp, drv.Resp) {
			g := impl.Do(op)
			w := m.Do(op)
			fmt.Printf("%-8s %s\n         implementation: %s\n         reference     : %s\n", tag, op.String(), g.Short(), w.Short())
			return g, w
		}
		for _, op := range h.Init {
			step("init", op)
		}
		for _, op := range h.History {
			step("history", op)
		}
		g, w := step("op", *h.Op)
		final := *h.Op
		if h.Observe != nil {
			g, w = step("observe", *h.Observe)
			final = *h.Observe
		}
		if g.PairDiff != nil {
			fmt.Printf("\nthe two SDK clients still differ: %s\n", g.PairDiff.String())
			return 1
		}
		if _, isProduct := impl.(*drv.Product); !isProduct {
			if d := drv.Compare(final, g, w); d != nil {
				fmt.Printf("\nstill diverges: %s\n", d.String())
				return 1
			}
		}
		fmt.Println("\nno divergence on this tree")
		return 0
	}
	// shape 2: an expression evaluation
	var e struct {
		Grammar    string            `json:"grammar"`
		Expression string            `json:"expression"`
		Item       val.Item          `json:"item"`
		Names      map[string]string `json:"names"`
		Values     map[string]val.V  `json:"values"`
		Via        string            `json:"via"`
	}
	if json.Unmarshal(f.Replay, &e) == nil && e.Expression != "" {
		isUpdate := e.Grammar == "update" || e.Via != "" || len(e.Expression) > 3 && (e.Expression[:3] == "SET" || e.Expression[:3] == "ADD" || e.Expression[:3] == "REM" || e.Expression[:3] == "DEL")
		if isUpdate {
			out, after := itp.Update(e.Expression, e.Item, e.Names, e.Values)
			fmt.Printf("Language.Update(%q) on %s -> %s %s\nitem now: %s\nreference recogniser: sentence=%v\n", e.Expression, e.Item.CanonText(), out.O, out.Msg, after.CanonText(), rx.IsUpdateSentence(e.Expression))
		} else {
			out, _ := itp.Match(e.Expression, e.Item, e.Names, e.Values)
			fmt.Printf("Language.Match(%q) on %s values %v -> %s %s\nreference recogniser: sentence=%v\n", e.Expression, e.Item.CanonText(), e.Values, out.O, out.Msg, rx.IsCondSentence(e.Expression))
		}
		fmt.Println("(compare with the recorded expectation above; re-run the property's check for the verdict)")
		return 0
	}
	fmt.Println("this artefact has no generic replayer: the recorded detail above names the input; re-run the property's check")
	return 0
}
