// Command check runs one property check: check <ID> <quick|thorough>.
package main

import (
	"fmt"
	"os"
	"sync/atomic"

	"verif/checks"
	"verif/ev"
	"verif/itp"
)

func main() {
	if len(os.Args) < 3 {
		fmt.Fprintln(os.Stderr, "usage: check <property> <quick|thorough>")
		os.Exit(3)
	}
	if os.Args[1] == "replay" {
		os.Exit(replay(os.Args[2]))
	}
	prop, tier := os.Args[1], os.Args[2]
	if r := os.Getenv("VERIF_ROOT"); r != "" {
		ev.Root = r
	}
	c, ok := checks.Registry[prop]
	if !ok {
		fmt.Fprintln(os.Stderr, "unknown property", prop)
		os.Exit(3)
	}
	if os.Getenv("VERIF_WORKER") == "" && os.Getenv("VERIF_NO_SUPERVISOR") == "" {
		os.Exit(ev.Supervise(prop, tier))
	}
	ev.InitWorker()
	run := ev.NewRun(prop, tier)
	// every direct evaluation of the interpreter is repeated on a long-lived Language (itp): a
	// disagreement with the fresh one is a violation of whatever property is being checked
	itp.OnDiverge = func(kind, expr, msg string, rep map[string]interface{}) {
		run.Report(prop+"|history-dependent-evaluation|"+kind, fmt.Sprintf("%q: %s", expr, msg), rep)
	}
	cov := c(run, tier)
	if n := atomic.LoadInt64(&itp.WarmEvaluations); n > 0 {
		cov["evaluations_repeated_on_a_long_lived_interpreter"] = n
	}
	os.Exit(run.Finish(cov))
}
