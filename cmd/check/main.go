// Command check runs one property check: check <ID> <quick|thorough>.
package main

import (
	"fmt"
	"os"

	"verif/checks"
	"verif/ev"
)

func main() {
	if len(os.Args) < 3 {
		fmt.Fprintln(os.Stderr, "usage: check <property> <quick|thorough>")
		os.Exit(3)
	}
	if os.Args[1] == "replay" {
		os.Exit(replay(os.Args[2]))
	}
	prop, tier := os.Args[1], os.Args[2]
	if r := os.Getenv("VERIF_ROOT"); r != "" {
		ev.Root = r
	}
	c, ok := checks.Registry[prop]
	if !ok {
		fmt.Fprintln(os.Stderr, "unknown property", prop)
		os.Exit(3)
	}
	if os.Getenv("VERIF_WORKER") == "" && os.Getenv("VERIF_NO_SUPERVISOR") == "" {
		os.Exit(ev.Supervise(prop, tier))
	}
	ev.InitWorker()
	run := ev.NewRun(prop, tier)
	cov := c(run, tier)
	os.Exit(run.Finish(cov))
}
