// Command mutate enumerates first-order syntactic mutants of the non-test Go files of a
// package tree (operator swaps, negated conditions, deleted statements, flipped literals) as
// byte-range replacements. It is the generator of the mutation campaign described in DESIGN.md
// section 5 (scripts/mutcampaign.py applies each mutant to a scratch copy of the repository).
//
// usage: mutate <repo> <dir>... > mutants.jsonl
package main

import (
	"encoding/json"
	"fmt"
	"go/ast"
	"go/parser"
	"go/token"
	"os"
	"path/filepath"
	"sort"
	"strings"
)

type mutant struct {
	ID    int    `json:"id"`
	File  string `json:"file"`
	Line  int    `json:"line"`
	Kind  string `json:"kind"`
	Start int    `json:"start"`
	End   int    `json:"end"`
	Repl  string `json:"repl"`
	Orig  string `json:"orig"`
	Func  string `json:"func"`
}

var swaps = map[token.Token][]string{
	token.EQL: {"!="}, token.NEQ: {"=="},
	token.LSS: {"<=", ">="}, token.LEQ: {"<", ">"}, token.GTR: {">=", "<="}, token.GEQ: {">", "<"},
	token.LAND: {"||"}, token.LOR: {"&&"},
	token.ADD: {"-"}, token.SUB: {"+"},
}

func main() {
	if len(os.Args) < 3 {
		fmt.Fprintln(os.Stderr, "usage: mutate <repo> <dir>...")
		os.Exit(2)
	}
	repo := os.Args[1]
	var out []mutant
	for _, dir := range os.Args[2:] {
		files, _ := filepath.Glob(filepath.Join(repo, dir, "*.go"))
		sort.Strings(files)
		for _, f := range files {
			if strings.HasSuffix(f, "_test.go") {
				continue
			}
			out = append(out, mutateFile(repo, f)...)
		}
	}
	enc := json.NewEncoder(os.Stdout)
	// MUTATE_GEN=3 prints only the third generation of operators (ids from 200000)
	if os.Getenv("MUTATE_GEN") == "3" {
		n := 200000
		for i := range out {
			if gen3[out[i].Kind] || strings.HasPrefix(out[i].Kind, "drop-operand") {
				out[i].ID = n
				n++
				enc.Encode(out[i])
			}
		}
		return
	}
	k := 0
	for i := range out {
		if gen3[out[i].Kind] || strings.HasPrefix(out[i].Kind, "drop-operand") {
			continue
		}
		out[i].ID = k
		k++
		enc.Encode(out[i])
	}
}

// third generation: a conjunct or disjunct forgotten, a loop that stops after its first
// iteration, a range that skips the first element, continue and break exchanged, the first two
// arguments of a call exchanged, a case clause removed (its values fall to the default).
var gen3 = map[string]bool{"loop-once": true, "range-skip-first": true, "continue->break": true, "break->continue": true, "swap-args": true, "delete-case": true}

func keepNewlines(t string) string {
	b := []byte(t)
	for i := range b {
		if b[i] != '\n' {
			b[i] = ' '
		}
	}
	return string(b)
}

func mutateFile(repo, path string) []mutant {
	src, err := os.ReadFile(path)
	if err != nil {
		panic(err)
	}
	fset := token.NewFileSet()
	f, err := parser.ParseFile(fset, path, src, 0)
	if err != nil {
		panic(err)
	}
	rel, _ := filepath.Rel(repo, path)
	var ms []mutant
	off := func(p token.Pos) int { return fset.Position(p).Offset }
	curFunc := ""
	add := func(kind string, start, end int, repl string, pos token.Pos) {
		ms = append(ms, mutant{File: rel, Line: fset.Position(pos).Line, Kind: kind, Start: start, End: end, Repl: repl, Orig: string(src[start:end]), Func: curFunc})
	}
	blank := func(n int) string { return strings.Repeat(" ", n) }
	var visitStmtList func(list []ast.Stmt)
	visitStmtList = func(list []ast.Stmt) {
		for _, st := range list {
			switch s := st.(type) {
			case *ast.ExprStmt:
				if _, ok := s.X.(*ast.CallExpr); ok {
					add("delete-call", off(s.Pos()), off(s.End()), blank(off(s.End())-off(s.Pos())), s.Pos())
				}
			case *ast.AssignStmt:
				if s.Tok != token.DEFINE {
					add("delete-assignment", off(s.Pos()), off(s.End()), blank(off(s.End())-off(s.Pos())), s.Pos())
				}
			case *ast.IncDecStmt:
				add("delete-incdec", off(s.Pos()), off(s.End()), blank(off(s.End())-off(s.Pos())), s.Pos())
			case *ast.BranchStmt:
				if s.Tok == token.CONTINUE || s.Tok == token.BREAK {
					add("delete-"+s.Tok.String(), off(s.Pos()), off(s.End()), blank(off(s.End())-off(s.Pos())), s.Pos())
				}
				if s.Tok == token.CONTINUE && s.Label == nil {
					add("continue->break", off(s.Pos()), off(s.End()), "break", s.Pos())
				}
				if s.Tok == token.BREAK && s.Label == nil {
					add("break->continue", off(s.Pos()), off(s.End()), "continue", s.Pos())
				}
			case *ast.DeferStmt:
				add("delete-defer", off(s.Pos()), off(s.End()), blank(off(s.End())-off(s.Pos())), s.Pos())
			}
		}
	}
	ast.Inspect(f, func(n ast.Node) bool {
		switch x := n.(type) {
		case *ast.FuncDecl:
			curFunc = x.Name.Name
			if x.Recv != nil && len(x.Recv.List) == 1 {
				switch t := x.Recv.List[0].Type.(type) {
				case *ast.StarExpr:
					if id, ok := t.X.(*ast.Ident); ok {
						curFunc = id.Name + "." + curFunc
					}
				case *ast.Ident:
					curFunc = t.Name + "." + curFunc
				}
			}
		case *ast.BlockStmt:
			visitStmtList(x.List)
		case *ast.CaseClause:
			visitStmtList(x.Body)
			if x.List != nil {
				a, b := off(x.Pos()), off(x.End())
				add("delete-case", a, b, keepNewlines(string(src[a:b])), x.Pos())
			}
		case *ast.RangeStmt:
			if len(x.Body.List) > 0 {
				e := off(x.Body.Rbrace)
				add("loop-once", e, e+1, ";break}", x.Body.Rbrace)
			}
			if _, isCall := x.X.(*ast.CallExpr); !isCall {
				a, b := off(x.X.Pos()), off(x.X.End())
				add("range-skip-first", a, b, "("+string(src[a:b])+")[1:]", x.X.Pos())
			}
		case *ast.BinaryExpr:
			for _, r := range swaps[x.Op] {
				s := off(x.OpPos)
				add("swap "+x.Op.String()+" -> "+r, s, s+len(x.Op.String()), r, x.OpPos)
			}
			if x.Op == token.LAND || x.Op == token.LOR {
				a, b := off(x.Pos()), off(x.End())
				xa, xb := off(x.X.Pos()), off(x.X.End())
				ya, yb := off(x.Y.Pos()), off(x.Y.End())
				add("drop-operand-right "+x.Op.String(), a, b, keepNewlines(string(src[a:xa]))+string(src[xa:xb])+keepNewlines(string(src[xb:b])), x.Pos())
				add("drop-operand-left "+x.Op.String(), a, b, keepNewlines(string(src[a:ya]))+string(src[ya:yb])+keepNewlines(string(src[yb:b])), x.Pos())
			}
		case *ast.IfStmt:
			s, e := off(x.Cond.Pos()), off(x.Cond.End())
			add("negate-if", s, e, "!("+string(src[s:e])+")", x.Cond.Pos())
			// second generation of operators: a guard removed altogether, an else branch dropped
			if x.Else == nil && x.Init == nil {
				a, b := off(x.Pos()), off(x.End())
				add("delete-if-statement", a, b, keepNewlines(string(src[a:b])), x.Pos())
			}
			if blk, ok := x.Else.(*ast.BlockStmt); ok {
				a, b := off(x.Body.End()), off(blk.End())
				add("delete-else", a, b, keepNewlines(string(src[a:b])), blk.Pos())
			}
		case *ast.CallExpr:
			// a copying helper bypassed: the value is passed on as it is
			if len(x.Args) >= 2 && !x.Ellipsis.IsValid() {
				a0, a1 := off(x.Args[0].Pos()), off(x.Args[0].End())
				b0, b1 := off(x.Args[1].Pos()), off(x.Args[1].End())
				if string(src[a0:a1]) != string(src[b0:b1]) {
					add("swap-args", a0, b1, string(src[b0:b1])+string(src[a1:b0])+string(src[a0:a1]), x.Pos())
				}
			}
			if id, ok := x.Fun.(*ast.Ident); ok && len(x.Args) == 1 && (strings.HasPrefix(strings.ToLower(id.Name), "copy") || strings.HasPrefix(strings.ToLower(id.Name), "clone")) {
				a, b := off(x.Pos()), off(x.End())
				as, ae := off(x.Args[0].Pos()), off(x.Args[0].End())
				add("unwrap-copy", a, b, string(src[as:ae]), x.Pos())
			}
		case *ast.SliceExpr:
			if lit, ok := x.Low.(*ast.BasicLit); ok && lit.Kind == token.INT && lit.Value == "1" {
				add("slice-low 1->0", off(lit.Pos()), off(lit.End()), "0", lit.Pos())
			}
		case *ast.ForStmt:
			if len(x.Body.List) > 0 {
				e := off(x.Body.Rbrace)
				add("loop-once", e, e+1, ";break}", x.Body.Rbrace)
			}
			if x.Cond != nil {
				s, e := off(x.Cond.Pos()), off(x.Cond.End())
				add("negate-for", s, e, "!("+string(src[s:e])+")", x.Cond.Pos())
			}
		case *ast.UnaryExpr:
			if x.Op == token.NOT {
				s := off(x.OpPos)
				add("drop-not", s, s+1, " ", x.OpPos)
			}
		case *ast.Ident:
			if x.Name == "true" && x.Obj == nil {
				add("true->false", off(x.Pos()), off(x.End()), "false", x.Pos())
			}
			if x.Name == "false" && x.Obj == nil {
				add("false->true", off(x.Pos()), off(x.End()), "true", x.Pos())
			}
		case *ast.BasicLit:
			if x.Kind == token.INT {
				switch x.Value {
				case "0":
					add("0->1", off(x.Pos()), off(x.End()), "1", x.Pos())
				case "1":
					add("1->0", off(x.Pos()), off(x.End()), "0", x.Pos())
					add("1->2", off(x.Pos()), off(x.End()), "2", x.Pos())
				}
			}
		case *ast.ReturnStmt:
			// an early "return nil"/"return err" inside an if body: nothing to do here (negate-if covers it)
		}
		return true
	})
	return ms
}
